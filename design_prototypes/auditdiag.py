import sys
from dfs import *
exec(open(sys.argv[2]).read())
job = Job(CFGS[sys.argv[1]], setup, sL, sR)
h1 = eval(sys.argv[3]); h2 = eval(sys.argv[4]); act = eval(sys.argv[5])
a = build(job, h1); b = build(job, h2)
print("pre equal", key(a) == key(b))
print([e._vseq for e in sorted(a.cs.state.get_all(discarded=True), key=lambda e: e._vseq)], [e._vseq for e in sorted(b.cs.state.get_all(discarded=True), key=lambda e: e._vseq)])
print(a.cs.state.pretty_print(use_sigs=False)); print(b.cs.state.pretty_print(use_sigs=False))
apply(job, a, act); apply(job, b, act)
ka, kb = key(a), key(b)
def diff(x, y, path=""):
    if x == y: return
    if isinstance(x, tuple) and isinstance(y, tuple) and len(x) == len(y):
        for i, (p, q) in enumerate(zip(x, y)): diff(p, q, path + "/%d" % i)
    else: print("DIFF at", path, "\n   ", x, "\n   ", y)
diff(ka, kb)
print(a.cs.state.pretty_print(use_sigs=False)); print(b.cs.state.pretty_print(use_sigs=False))
