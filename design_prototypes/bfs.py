import sys, collections, time as _t
from world import *
CFGS = {
 "oid-oid": ((False, True, False), (False, True, False)),
 "path-oidf": ((True, True, False), (False, True, True)),
}
def build(cfg, setup, scriptL, scriptR, hist):
    w = World(cfg)
    for op in setup: assert w.user(op), op
    # sync setup to quiescence with fair schedule
    for i in range(100):
        en = w.enabled()
        if not en: break
        for a in en: w.step(a)
    assert not w.enabled(), "setup did not quiesce"
    w.setup_tree = (w.tree(0), w.tree(1))
    w.pos = [0, 0]
    scripts = (scriptL, scriptR)
    for a in hist:
        if a in ("UL", "UR"):
            s = 0 if a == "UL" else 1
            w.user(scripts[s][w.pos[s]]); w.pos[s] += 1
        else:
            w.step(a)
    return w

def conflicted(name): return ".conflicted" in name
def check_converged(w):
    tl, tr = w.tree(0), w.tree(1)
    kl = {k: v for k, v in tl.items() if not conflicted(k)}
    kr = {k: v for k, v in tr.items() if not conflicted(k)}
    return kl == kr, tl, tr

def explore(cfg, setup, sL, sR, maxdepth=60, maxstates=200000, verbose=False):
    scripts = (sL, sR)
    seen = {}
    frontier = collections.deque([()])
    w = build(cfg, setup, sL, sR, ()); seen[(w.canon(), tuple(w.pos))] = (); w.close()
    nstates = 1; ntrans = 0; bad = []; finals = collections.Counter(); capped = False
    while frontier:
        hist = frontier.popleft()
        w = build(cfg, setup, sL, sR, hist)
        acts = []
        if w.pos[0] < len(sL): acts.append("UL")
        if w.pos[1] < len(sR): acts.append("UR")
        acts += w.enabled()
        w.close()
        if not acts:
            continue
        for a in acts:
            nh = hist + (a,)
            w = build(cfg, setup, sL, sR, nh)
            ntrans += 1
            k = (w.canon(), tuple(w.pos))
            done = w.pos[0] == len(sL) and w.pos[1] == len(sR) and not w.enabled()
            if done:
                ok, tl, tr = check_converged(w)
                finals[(ok, repr(sorted(tl.items())), repr(sorted(tr.items())))] += 1
                if not ok: bad.append((nh, tl, tr))
            if w.errors: bad.append((nh, "ERR", w.errors))
            w.close()
            if k in seen: continue
            seen[k] = nh; nstates += 1
            if len(nh) >= maxdepth:
                bad.append((nh, "DEPTH", None)); continue
            if nstates >= maxstates: capped = True; frontier.clear(); break
            frontier.append(nh)
    return dict(states=nstates, trans=ntrans, bad=bad, finals=finals, capped=capped)

if __name__ == "__main__":
    t0 = _t.perf_counter()
    cfgname = sys.argv[1] if len(sys.argv) > 1 else "oid-oid"
    setup = []
    sL = [(0, "mkdir", "d"), (0, "create", "d/a", b"x")]
    sR = []
    if len(sys.argv) > 2:
        exec(open(sys.argv[2]).read())
    r = explore(CFGS[cfgname], setup, sL, sR)
    print(cfgname, "states", r["states"], "trans", r["trans"], "capped", r["capped"], "bad", len(r["bad"]), "time", round(_t.perf_counter()-t0, 2))
    for f, c in r["finals"].items(): print("  final", c, f)
    for b in r["bad"][:5]: print("  BAD", b)
