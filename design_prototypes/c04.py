import sys, itertools, multiprocessing as mp, collections, time as _t
from dfs import *
B2 = [(0, "create", "a", b"1"), (0, "mkdir", "d"), (0, "create", "d/b", b"2"), (0, "mkdir", "e"), (0, "mkdir", "e/f"), (0, "create", "e/f/g", b"3"), (0, "create", "h", b"4")]
# ops grouped by the subtree they touch: group A touches {a, c, d...}; group B touches {e..., h, k}
def OPS_A(s, t): return [(s,"write","a",b"A"+t), (s,"delete","a"), (s,"rename","a","c"), (s,"rename","a","d/a"), (s,"create","d/c",b"C"+t), (s,"delete","d/b"), (s,"rename","d","d2"), (s,"mkdir","d/x"), (s,"rename","d/b","b")]
def OPS_B(s, t): return [(s,"write","h",b"H"+t), (s,"delete","h"), (s,"rename","h","k"), (s,"rename","h","e/h"), (s,"create","e/f/c",b"K"+t), (s,"delete","e/f/g"), (s,"rename","e","e2"), (s,"rename","e/f","e/f2"), (s,"mkdir","e/y")]
def model(ops):
    t = {}
    for op in B2: apply_model(t, op)
    for op in ops: apply_model(t, op)
    return t
def apply_model(t, op):
    k = op[1]
    if k == "create": t[op[2]] = op[3]
    elif k == "write": t[op[2]] = op[3]
    elif k == "mkdir": t[op[2]] = None
    elif k == "delete": del t[op[2]]
    elif k == "rename":
        src, dst = op[2], op[3]
        for p in list(t):
            if p == src or p.startswith(src + "/"):
                t[dst + p[len(src):]] = t.pop(p)
def job(args):
    cfgname, sL, sR = args
    j = Job(CFGS[cfgname], B2, sL, sR)
    try:
        r = explore(j, maxstates=6000, H=120)
        f = terminals(j, r)
    except Exception as e:
        import traceback; return (cfgname, sL, sR, "EXC " + traceback.format_exc()[-300:])
    want = repr(sorted(model(sL + sR).items()))
    outs = collections.Counter()
    for (ok, tl, tr), c in f.items():
        outs["ok" if (tl == want and tr == want) else "BAD"] += c
    badex = [(tl, tr) for (ok, tl, tr), c in f.items() if not (tl == want and tr == want)][:1]
    return (cfgname, sL, sR, dict(outs), r["states"], r["stats"].get("capped", 0), len(r["bad"]), badex, want)
if __name__ == "__main__":
    jobs = []
    for cfgname in CFGS:
        for (sa, sb) in ((0, 1), (1, 0)):
            for oa, ob in itertools.product(OPS_A(sa, b"x"), OPS_B(sb, b"y")):
                sL = [oa] if sa == 0 else [ob]; sR = [ob] if sa == 0 else [oa]
                jobs.append((cfgname, sL, sR))
    t0 = _t.perf_counter()
    with mp.Pool(16) as pool: res = pool.map(job, jobs, chunksize=1)
    nbad = 0; st = 0
    for r in res:
        if isinstance(r[3], str): print(r); nbad += 1; continue
        st += r[4]
        if r[3].get("BAD") or r[5] or r[6]:
            nbad += 1; print(str(r)[:700])
    print("jobs", len(jobs), "bad", nbad, "states", st, "wall", round(_t.perf_counter() - t0, 1))
