import sys, itertools, multiprocessing as mp, collections, time as _t
from io import BytesIO
from dfs import *
import dfs
calls = []
def make_resolver(beh):
    kind, keep = beh
    def resolver(f1, f2):
        b1 = f1.read(); f1.seek(0); b2 = f2.read(); f2.seek(0)
        calls.append(((f1.side, b1), (f2.side, b2)))
        if kind == "local": return (f1 if f1.side == 0 else f2, keep)
        if kind == "remote": return (f1 if f1.side == 1 else f2, keep)
        if kind == "merge": return (BytesIO(b"MERGED"), keep)
        if kind == "none": return None
        if kind == "raise": raise RuntimeError("boom")
        if kind == "garbage": return "nonsense"
        if kind == "tuple3": return (f1, True, 1)
        if kind == "nonfile": return ("x", True)
    return resolver
_build = dfs.build
BEH = None
class RJob(Job): pass
_World_init = World.__init__
def winit(self, cfg):
    _World_init(self, cfg)
    if BEH is not None: self.cs.smgr.set_resolver(make_resolver(BEH))
World.__init__ = winit
def job(args):
    global BEH
    cfgname, shape, contents, beh = args
    BEH = beh
    cl, cr = contents
    if shape == "cc":
        setup = []; sL = [(0, "create", "a", cl)]; sR = [(1, "create", "a", cr)]
    else:
        setup = [(0, "create", "a", b"base")]; sL = [(0, "write", "a", cl)]; sR = [(1, "write", "a", cr)]
    j = Job(CFGS[cfgname], setup, sL, sR)
    # force both user ops first: explore from history (UL, UR) by making scripts applied in setup-like prefix
    outs = collections.Counter(); ncalls = collections.Counter()
    r = explore(j, maxstates=4000, H=100)
    # terminals with resolver call counts: recompute per terminal
    for k, h in r["seen"].items():
        if k[1] != (1, 1): continue
        if not (h[:2] == ("UL", "UR") or h[:2] == ("UR", "UL")): continue
        calls.clear()
        w = dfs.build(j, h); term = True
        for a in (0, 1, 2):
            kp = key(w); w.step(a)
            if key(w) != kp: term = False; break
        if term:
            nc = len(calls)
            outs[(repr(sorted(w.tree(0).items())), repr(sorted(w.tree(1).items())), nc)] += 1
        w.close()
    return (cfgname, shape, contents, beh, dict(outs), r["states"], len(r["bad"]), r["stats"].get("capped", 0))
if __name__ == "__main__":
    jobs = []
    behs = [("local", True), ("local", False), ("remote", True), ("remote", False), ("merge", True), ("merge", False), ("none", None), ("raise", None), ("garbage", None), ("tuple3", None), ("nonfile", None)]
    for cfgname in ("oid-oid",):
        for shape in ("cc", "ee"):
            for contents in ((b"L1", b"R1"), (b"same", b"same"), (b"", b"R1")):
                for beh in behs:
                    jobs.append((cfgname, shape, contents, beh))
    with mp.Pool(16) as pool: res = pool.map(job, jobs, chunksize=1)
    for r in res:
        print(r[1], r[2], r[3], "states", r[5], "noquiesce", r[6], "capped", r[7])
        for o, c in r[4].items(): print("      ", c, o)
