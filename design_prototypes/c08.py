import canon3, collections, msgpack
from world import *
import restart as RS
from restart import DictStorage
from cloudsync.sync.state import SyncState
def mkworld(cfg):
    reset()
    (lo, lc, lf), (ro, rc, rf) = cfg
    l = MockProvider(lo, lc, filter_events=lf); r = MockProvider(ro, rc, filter_events=rf)
    l.connection_id = "L"; r.connection_id = "R"; l.connect({"k": 1}); r.connect({"k": 1})
    w = World.__new__(World); w.provs = (l, r); w.errors = []; w.applied = []
    w.st = DictStorage()
    w.cs = CloudSync((l, r), roots=ROOTS, storage=w.st, sleep=None); w.cs.aging = 0; w.cs.smgr._validate_provider_roots()
    return w
FIELDS = ("otype", "hash", "sync_hash", "path", "sync_path", "oid", "exists", "changed")
def check(w):
    st = w.cs.state; tag = st._tag
    rows = w.st.d.get(tag, {})
    errs = []
    live = [e for e in (st.get_all(discarded=True) | set(st._changeset_storage))]
    if st._dirtyset: errs.append(("dirty left", len(st._dirtyset)))
    byid = {}
    for e in live:
        if e.is_trash: continue
        if e.storage_id is None: errs.append(("live entry without row", str(e))); continue
        byid[e.storage_id] = e
        if e.storage_id not in rows: errs.append(("row missing", e.storage_id, str(e))); continue
        if rows[e.storage_id] != e.serialize(): 
            a = msgpack.loads(rows[e.storage_id], raw=False); b = msgpack.loads(e.serialize(), raw=False)
            diff = [(k, s, a[k][s], b[k][s]) for k in ("side0", "side1") for s in a[k] if a[k][s] != b[k][s]] + [(k, a[k], b[k]) for k in ("ignored",) if a[k] != b[k]]
            if diff: errs.append(("row stale", e.storage_id, diff))
    for sid in rows:
        if sid not in byid: errs.append(("stale row", sid, msgpack.loads(rows[sid], raw=False)["side0"]["path"], msgpack.loads(rows[sid], raw=False)["side1"]["path"]))
    # reload
    st2 = SyncState(st.providers, DictStorage({k: dict(v) for k, v in w.st.d.items()}), tag)
    def sig(e): return tuple((getattr(e[s], f) if f != "changed" else bool(e[s].changed)) for s in (0,1) for f in FIELDS) + (e.ignored,)
    a = collections.Counter(map(sig, [e for e in st.get_all(discarded=True)])); b = collections.Counter(map(sig, st2.get_all(discarded=True)))
    if a != b: errs.append(("reload differs", list((a - b).elements())[:1], list((b - a).elements())[:1]))
    pa = collections.Counter(map(sig, st._changeset_storage)); pb = collections.Counter(map(sig, st2._changeset_storage))
    if pa != pb: errs.append(("reload pending differs", list((pa - pb).elements())[:1], list((pb - pa).elements())[:1]))
    return errs
from bfs import CFGS
import itertools
from survey import OPS, BASE
tot = collections.Counter(); exs = {}
for cfgname in CFGS:
    for s in (0, 1):
        for o1, o2 in itertools.product(OPS(s), OPS(s)):
            w = mkworld(CFGS[cfgname])
            seq = [("u", op) for op in BASE] + [("q",)] + [("u", o1), ("e", 0), ("e", 1), ("u", o2), ("q",)]
            nsteps = 0
            def after(tagx):
                global nsteps
                nsteps += 1
                for er in check(w): tot[(cfgname, er[0])] += 1; exs.setdefault((er[0]), (cfgname, o1, o2, tagx, er))
            for it in seq:
                if it[0] == "u": w.user(it[1])
                elif it[0] == "e": w.step(it[1]); after(it)
                else:
                    for i in range(60):
                        k = w.canon()
                        for a in (0, 1, 2): w.step(a); after(("q", a))
                        if w.canon() == k: break
            w.cs.done()
print(dict(tot))
for k, v in exs.items(): print("EX", k, str(v)[:700])
