from env import *
import itertools, collections
from cloudsync.sync.state import SyncState, SyncEntry, TRASHED, EXISTS, MISSING, UNKNOWN
from cloudsync import FILE, DIRECTORY, LOCAL, REMOTE
from cloudsync.types import IgnoreReason
from cloudsync.providers.mock import MockProvider

def mk(oip):
    reset()
    l = MockProvider(oip, True); r = MockProvider(False, True)
    l.connection_id = "L"; r.connection_id = "R"; l.connect({"k":1}); r.connect({"k":1})
    return SyncState((l, r), shuffle=False)
OIDS = ["o1", "o2"]; PATHS = ["/a", "/b", "/d", "/d/a"]
def ops(oip):
    out = []
    for side in (0, 1):
        path_style = oip and side == 0
        for otype in (FILE, DIRECTORY):
            for ex_ in (True, False, None):
                if path_style:
                    for p in PATHS:
                        for prior in [None] + [q for q in PATHS if q != p][:2]:
                            out.append(("update", side, otype, p, p, b"h1", ex_, prior))
                else:
                    for o in OIDS:
                        for p in [None, "/a", "/d/a"]:
                            for h in (b"h1", b"h2"):
                                out.append(("update", side, otype, o, p, h, ex_, None))
    out += [("split", i) for i in range(2)] + [("discard", i) for i in range(2)] + [("finish", i, s) for i in range(2) for s in (0,1)] + [("conflict", i) for i in range(2)]
    return out
def ents(st): return sorted(st.get_all(discarded=True) | set(st._changeset_storage), key=lambda e: e._vseq)
def apply(st, op):
    k = op[0]
    if k == "update":
        _, side, otype, oid, path, h, ex_, prior = op
        st.update(side, otype, oid, path=path, hash=h if otype == FILE else None, exists=ex_, prior_oid=prior)
    else:
        es = ents(st)
        if op[1] >= len(es): return False
        e = es[op[1]]
        if k == "split":
            if not e[LOCAL].oid: return False
            st.split(e)
        elif k == "discard": e.ignore(IgnoreReason.DISCARDED)
        elif k == "conflict": e.ignore(IgnoreReason.CONFLICT)
        elif k == "finish":
            e[op[2]].changed = 0; st.finished(e)
    return True
def dump(st):
    rows = []
    es = ents(st)
    for e in es:
        rows.append(tuple((e[s]._oid, e[s]._path, bool(e[s]._changed), e[s]._exists.value, e[s]._otype.value if e[s]._otype else None, e[s]._hash) for s in (0,1)) + (e._ignored.value, e in st._changeset_storage))
    idx = tuple(tuple(sorted((o, es.index(e) if e in es else -1) for o, e in st._oids[s].items())) for s in (0,1))
    pidx = tuple(tuple(sorted((p, o, es.index(e) if e in es else -1) for p, d in st._paths[s].items() for o, e in d.items())) for s in (0,1))
    return (tuple(rows), idx, pidx)
def invariants(st):
    errs = []
    allents = st.get_all(discarded=True)
    for s in (0, 1):
        for o, e in st._oids[s].items():
            if e[s]._oid != o: errs.append(("oid slot stale", s, o, e[s]._oid))
        for p, d in st._paths[s].items():
            if not d: errs.append(("empty path slot", s, p))
            for o, e in d.items():
                if e[s]._path != p or e[s]._oid != o: errs.append(("path slot stale", s, p, o, e[s]._path, e[s]._oid))
    for e in allents:
        for s in (0, 1):
            if e[s]._oid is not None:
                if st._oids[s].get(e[s]._oid) is not e: errs.append(("entry not under oid", s, e[s]._oid))
                if e[s]._path and st._paths[s].get(e[s]._path, {}).get(e[s]._oid) is not e: errs.append(("entry not under path", s, e[s]._path, e[s]._oid))
    pend = set(st._changeset_storage)
    for e in pend:
        if e not in allents: errs.append(("pending forgotten entry",))
    for e in allents:
        want = any(e[s]._changed and e[s]._oid is not None for s in (0,1))
        if e.is_discarded: continue
        if want != (e in pend): errs.append(("pending mismatch", want, e in pend, [(e[s]._oid, e[s]._changed) for s in (0,1)]))
    return errs
for oip in (False, True):
    OPS = ops(oip)
    seen = {dump(mk(oip)): ()}; frontier = collections.deque([()]); bad = collections.Counter(); exs = {}; excs = collections.Counter(); trans = 0
    MAXD = 3
    while frontier:
        h = frontier.popleft()
        for op in OPS:
            st = mk(oip)
            for o in h: apply(st, o)
            try:
                if not apply(st, op): continue
            except AssertionError as e:
                excs[("assert", op[0])] += 1
                errs = invariants(st)
                if errs: bad[("after-assert",) + errs[0][:1]] += 1; exs.setdefault(("after-assert",) + errs[0][:1], (h + (op,), errs[0]))
                continue
            except Exception as e:
                excs[(type(e).__name__, op[0], str(e)[:50])] += 1; exs.setdefault(type(e).__name__, (h + (op,), repr(e))); continue
            trans += 1
            errs = invariants(st)
            for er in errs[:1]: bad[er[:1]] += 1; exs.setdefault(er[:1], (h + (op,), er))
            k = dump(st)
            if k not in seen:
                seen[k] = h + (op,)
                if len(h) + 1 < MAXD: frontier.append(h + (op,))
    print("oid_is_path(local)=", oip, "ops", len(OPS), "states", len(seen), "trans", trans, "bad", dict(bad), "excs", dict(excs))
    for k, v in exs.items(): print("   EX", k, v)
