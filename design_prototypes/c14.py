import canon3, collections, itertools, copy
from world import *
from bfs import CFGS
from survey import OPS, BASE
def run(cfg, ops, mangle):
    w = World(cfg)
    for op in BASE: w.user(op)
    def q():
        for i in range(80):
            k = w.canon()
            for a in (0, 1, 2): w.step(a)
            if w.canon() == k: return True
        return False
    assert q()
    writes = []
    for s in (0, 1):
        p = w.provs[s]
        orig = p.events
        def mk(orig, p):
            def events():
                evs = list(orig())
                if mangle == "dup": evs = [e for e in evs for _ in (0, 1)]
                elif mangle == "rev" and not p.oid_is_path: evs = evs[::-1]
                elif mangle == "dup-rev" and not p.oid_is_path: evs = evs + evs[::-1]
                for e in evs: yield copy.copy(e)
            return events
        p.events = mk(orig, p)
        for name in ("create", "upload", "rename", "delete", "mkdir"):
            o = getattr(p, name)
            def mkw(o, name, s):
                def f(*a, **kw):
                    if flag[0]: writes.append((s, name))
                    return o(*a, **kw)
                return f
            setattr(p, name, mkw(o, name, s))
    flag = [False]
    for op in ops: w.user(op)
    flag[0] = True
    ok = q()
    r = (ok, w.tree(0), w.tree(1), tuple(sorted(writes)))
    w.close(); return r
tot = collections.Counter(); exs = {}
for cfgname in CFGS:
    for s in (0, 1):
        hs = [[o] for o in OPS(s)] + [[a, b] for a, b in itertools.product(OPS(s), OPS(s))]
        for h in hs:
            base = run(CFGS[cfgname], h, None)
            for m in ("dup", "rev", "dup-rev"):
                r = run(CFGS[cfgname], h, m)
                k = "same" if r[:3] == base[:3] else "DIFF"
                if k == "same" and len(r[3]) > len(base[3]): k = "MOREWRITES"
                tot[(cfgname, m, k)] += 1
                if k != "same": exs.setdefault((cfgname, m, k), (h, base, r))
print(dict(tot))
for k, v in exs.items(): print("EX", k, str(v)[:900])
