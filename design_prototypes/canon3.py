import math, re
from world import *
def canon3(self):
    st = self.cs.state
    stamps = set()
    def col(v):
        if v and v >= 100: stamps.add(math.floor(v))
    ents_raw = sorted(st.get_all(discarded=True) | set(st._changeset_storage), key=lambda e: e._vseq)
    for e in ents_raw:
        for s in (0,1):
            col(e[s]._changed); col(e[s]._last_gotten)
    col(st._last_changed_time)
    rank = {v: i for i, v in enumerate(sorted(stamps))}
    def ts(v):
        if not v: return v
        if v < 100: return ('abs', v)
        f = math.floor(v)
        return (rank[f], round(v - f, 4))
    ren = {}
    def R(o):
        if isinstance(o, str) and re.fullmatch(r"o\d+", o):
            if o not in ren: ren[o] = "#%d" % len(ren)
            return ren[o]
        return o
    provs = []
    for s in (0, 1):
        p = self.provs[s]
        objs = tuple((R(k), o.path, R(o.oid), o.type, o.contents, o.exists) for k, o in p._mock_fs._objects.items())
        evs = tuple((e._action, R(e._target_object.oid), e._target_object.path, e._target_object.exists, e._target_object.type, R(e._prior_oid)) for e in p._events[p._cursor+1:])
        em = self.cs.emgrs[s]
        provs.append((objs, evs, em.need_walk, em._first_do, bool(em._queue), em.in_backoff))
    ents = []
    for i, e in enumerate(ents_raw):
        row = []
        for s in (0, 1):
            ss = e[s]
            row.append((ss._otype.value if ss._otype else None, ss._hash, ts(ss._changed), ts(ss._last_gotten), ss._sync_hash, ss._sync_path,
                        ss._path, R(ss._oid), ss._exists.value, ss._force_sync, bool(ss._temp_file and os.path.exists(ss._temp_file)), ss._saved_exists.value if ss._saved_exists else None))
        ents.append((tuple(row), e._ignored.value, e._priority, e in st._changeset_storage))
    return (tuple(ents), tuple(provs), self.cs.smgr.in_backoff, ts(st._last_changed_time))
World.canon = canon3
