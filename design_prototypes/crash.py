"""Prototype C07/C10: crash and fault enumeration over a base run (fair schedule)."""
import sys, collections
import canon3
from world import *
from restart import DictStorage
from cloudsync.event import EventManager
from cloudsync.runnable import _BackoffError
import cloudsync.exceptions as ex
class Crash(BaseException): pass

class CrashStorage(DictStorage):
    def __init__(self, d, plan): super().__init__(d); self.plan = plan
    def _w(self):
        p = self.plan
        if p["dead"]: raise Crash()
        p["sw"] += 1
        if p.get("crash_s") == p["sw"]: p["dead"] = True; raise Crash()
    def create(self, *a): self._w(); return super().create(*a)
    def update(self, *a): self._w(); return super().update(*a)
    def delete(self, *a): self._w(); return super().delete(*a)

def wrap_provider(p, plan, engine_flag):
    for name in ("create", "upload", "rename", "delete", "mkdir"):
        orig = getattr(p, name)
        def mk(orig, name):
            def f(*a, **kw):
                if not engine_flag[0]: return orig(*a, **kw)
                if plan["dead"]: raise Crash()
                r = orig(*a, **kw)
                plan["pw"] += 1
                if plan.get("crash_p") == plan["pw"]: plan["dead"] = True; raise Crash()
                return r
            return f
        setattr(p, name, mk(orig, name))
    orig_api = p._api
    def api(*a, **kw):
        if engine_flag[0]:
            plan["api"] += 1
            if plan.get("fault_at") == plan["api"]:
                kind = plan["fault_kind"]
                if kind in (ex.CloudDisconnectedError, ex.CloudTokenError): p.disconnect()
                raise kind("injected")
        return orig_api(*a, **kw)
    p._api = api

def run(cfg, setup, script, plan, mode):
    reset()
    (lo, lc, lf), (ro, rc, rf) = cfg
    l = MockProvider(lo, lc, filter_events=lf); r = MockProvider(ro, rc, filter_events=rf)
    l.connection_id = "L"; r.connection_id = "R"; l.connect({"k": 1}); r.connect({"k": 1})
    flag = [False]
    d = {}
    st = CrashStorage(d, plan)
    w = World.__new__(World); w.provs = (l, r); w.errors = []; w.applied = []
    def mkcs(storage):
        cs = CloudSync((l, r), roots=ROOTS, storage=storage, sleep=None); cs.aging = 0
        cs.smgr._validate_provider_roots(); return cs
    w.cs = mkcs(st)
    for p in (l, r): wrap_provider(p, plan, flag)
    def step(a):
        clk.t = float(int(clk.t) + 1); flag[0] = True
        m = (w.cs.emgrs[0], w.cs.emgrs[1], w.cs.smgr)[a]
        try:
            if mode == "crash":
                try: m.do()
                except _BackoffError: pass
                except Crash: raise
                except Exception as e: w.errors.append(repr(e))
            else:
                m.run(until=lambda: True)
        finally: flag[0] = False
    def quiesce(n=80):
        for i in range(n):
            k = w.canon()
            for a in (0, 1, 2): step(a)
            if w.canon() == k: return True
        return False
    plan_active = dict(plan)
    # setup without disturbance
    saved = {k: plan.get(k) for k in ("crash_s", "crash_p", "fault_at")}
    for k in saved: plan[k] = None
    for op in setup: w.user(op)
    assert quiesce()
    plan["sw"] = plan["pw"] = plan["api"] = 0
    for k, v in saved.items(): plan[k] = v
    crashed = False
    try:
        for op in script:
            w.user(op)
            if not quiesce(): return w, "noquiesce", plan
    except Crash:
        crashed = True
    if crashed:
        # restart
        for e in w.cs.emgrs: EventManager._provider_guard.remove(e.provider)
        plan["dead"] = False; plan["crash_s"] = plan["crash_p"] = None
        for p in (l, r):
            p.disconnect(); p._root_path = p._root_oid = None; p._cursor = p._latest_cursor; p.connect({"k": 1})
        w.cs = mkcs(CrashStorage(d, plan))
        mode = "normal"
        if not quiesce(): return w, "noquiesce-after-restart", plan
    return w, "ok", plan

def verdict(w):
    tl, tr = w.tree(0), w.tree(1)
    conf = [p for p in list(tl) + list(tr) if ".conflicted" in p]
    return tl == tr and not conf, tl, tr

if __name__ == "__main__":
    from bfs import CFGS
    BASE = [(0, "create", "a", b"1"), (0, "mkdir", "d"), (0, "create", "d/b", b"2")]
    scripts = {
      "create+rename": [(0, "create", "c", b"3"), (0, "rename", "c", "d/c")],
      "write+delete": [(0, "write", "a", b"4"), (0, "delete", "d/b")],
      "mkdir+move": [(0, "mkdir", "e"), (0, "rename", "a", "e/a")],
      "r-create+write": [(1, "create", "c", b"3"), (1, "write", "c", b"5")],
      "renamedir": [(0, "rename", "d", "e")],
    }
    for cfgname in ("oid-oid", "path-oidf"):
        for sname, script in scripts.items():
            plan = dict(dead=False, sw=0, pw=0, api=0)
            w, status, plan = run(CFGS[cfgname], BASE, script, plan, "crash")
            ok, tl, tr = verdict(w)
            W_s, W_p, N_api = plan["sw"], plan["pw"], plan["api"]
            res = collections.Counter(); examples = {}
            for k in range(1, W_s + 1):
                plan = dict(dead=False, sw=0, pw=0, api=0, crash_s=k)
                w, status, plan = run(CFGS[cfgname], BASE, script, plan, "crash")
                v = verdict(w); key = (status, v[0]); res[("S",) + key] += 1
                if not v[0] or status != "ok": examples.setdefault(("S",) + key, (k, v[1], v[2], w.errors))
            for k in range(1, W_p + 1):
                plan = dict(dead=False, sw=0, pw=0, api=0, crash_p=k)
                w, status, plan = run(CFGS[cfgname], BASE, script, plan, "crash")
                v = verdict(w); key = (status, v[0]); res[("P",) + key] += 1
                if not v[0] or status != "ok": examples.setdefault(("P",) + key, (k, v[1], v[2], w.errors))
            fres = collections.Counter()
            for kind in (ex.CloudTemporaryError, ex.CloudDisconnectedError, ex.CloudTokenError, ex.CloudOutOfSpaceError):
                for k in range(1, N_api + 1):
                    plan = dict(dead=False, sw=0, pw=0, api=0, fault_at=k, fault_kind=kind)
                    try:
                        w, status, plan = run(CFGS[cfgname], BASE, script, plan, "normal")
                        v = verdict(w); key = (kind.__name__, status, v[0])
                    except Exception as e:
                        key = (kind.__name__, "ESCAPED " + repr(e)[:80], False); v = (False, None, None)
                    fres[key] += 1
                    if not v[0]: examples.setdefault(key, (k, v[1], v[2]))
            print(cfgname, sname, "base ok" if ok else "BASE BAD", "W_s", W_s, "W_p", W_p, "api", N_api)
            print("   crash:", dict(res)); print("   fault:", {k: v for k, v in fres.items()})
            for k, e in examples.items(): print("      EX", k, str(e)[:300])
