import sys, collections, time as _t
import canon3
from world import *
from bfs import CFGS, conflicted
from cloudsync.runnable import Runnable

def step_protocol(self, which):
    clk.t = float(int(clk.t) + 1)
    m = (self.cs.emgrs[0], self.cs.emgrs[1], self.cs.smgr)[which]
    m.run(until=lambda: True)
World.step = step_protocol

class Job:
    def __init__(self, cfg, setup, sL, sR): self.cfg, self.setup, self.scripts = cfg, setup, (sL, sR)

def build(job, hist):
    w = World(job.cfg)
    for op in job.setup: assert w.user(op), op
    for i in range(100):
        before = w.canon(); 
        for a in (0, 1, 2): w.step(a)
        if w.canon() == before: break
    else: raise Exception("setup no quiesce")
    w.pos = [0, 0]
    for a in hist: apply(job, w, a)
    return w
def apply(job, w, a):
    if a in ("UL", "UR"):
        s = 0 if a == "UL" else 1
        w.user(job.scripts[s][w.pos[s]]); w.pos[s] += 1
    else: w.step(a)
def key(w): return (w.canon(), tuple(w.pos))
def actions(job, w):
    acts = []
    if w.pos[0] < len(job.scripts[0]): acts.append("UL")
    if w.pos[1] < len(job.scripts[1]): acts.append("UR")
    return acts + [0, 1, 2]

def explore(job, maxstates=50000, H=120, audit=False):
    seen = {}; stats = collections.Counter(); finals = collections.Counter(); bad = []
    w = build(job, ()); k0 = key(w); seen[k0] = ()
    # stack holds (hist, untried actions); world w corresponds to hist at top when "live"
    stack = [((), actions(job, w))]
    live = True   # w is at stack[-1] hist
    while stack:
        hist, todo = stack[-1]
        if not todo:
            stack.pop(); live = False
            continue
        a = todo.pop(0)
        if not live:
            w.close(); w = build(job, hist); stats["rebuilds"] += 1
            assert key(w) in seen
            live = True
        kpre = key(w)
        apply(job, w, a); stats["trans"] += 1
        k = key(w)
        if k == kpre:
            stats["noop"] += 1
            continue      # no-op: world abstractly unchanged, keep using it
        nh = hist + (a,)
        if k in seen:
            stats["merge"] += 1
            if audit and stats["merge"] % audit == 0:
                # one-step bisimulation audit
                h2 = seen[k]
                wa = build(job, nh); ka_ = key(wa); wb = build(job, h2)
                assert ka_ == key(wb)
                for act in actions(job, wa):
                    if act in ("UL", "UR") and not (wa.pos[0 if act == "UL" else 1] < len(job.scripts[0 if act == "UL" else 1])): continue
                    wa2 = build(job, nh); apply(job, wa2, act); ka2 = key(wa2)
                    wb2 = build(job, h2); apply(job, wb2, act); kb2 = key(wb2)
                    if ka2 != kb2:
                        stats["AUDIT_FAIL"] += 1
                        if stats["AUDIT_FAIL"] < 3: print("AUDIT FAIL", nh, h2, act)
                    wa2.close(); wb2.close()
                wa.close(); wb.close(); stats["audits"] += 1
            live = False   # world moved to a seen state; need rebuild for siblings
            continue
        seen[k] = nh
        if len(seen) >= maxstates: stats["capped"] = 1; break
        # terminal check deferred: terminal if all actions no-op -> detect when todo of child exhausts w/o children
        acts = actions(job, w)
        engine_steps_after = len(nh) - max([i for i, x in enumerate(nh) if x in ("UL", "UR")] + [-1]) - 1
        if engine_steps_after > H and not [x for x in acts if x in ("UL", "UR")]:
            bad.append((nh, "NOQUIESCE")); live = False; continue
        stack.append((nh, acts))
    # terminals: states where every action is a noop; recompute cheaply: replay each seen? Instead track during search
    return dict(states=len(seen), stats=dict(stats), bad=bad, seen=seen)

def terminals(job, res):
    # a state is terminal if scripts exhausted and all 3 engine actions are no-ops
    out = collections.Counter(); bad = []
    for k, h in res["seen"].items():
        pos = k[1]
        if pos[0] < len(job.scripts[0]) or pos[1] < len(job.scripts[1]): continue
        w = build(job, h); term = True
        for a in (0, 1, 2):
            kp = key(w); w.step(a)
            if key(w) != kp: term = False; break
        if term:
            tl, tr = w.tree(0), w.tree(1)
            ok = {p: v for p, v in tl.items() if not conflicted(p)} == {p: v for p, v in tr.items() if not conflicted(p)}
            out[(ok, repr(sorted(tl.items())), repr(sorted(tr.items())))] += 1
        w.close()
    return out

if __name__ == "__main__":
    exec(open(sys.argv[2]).read())
    job = Job(CFGS[sys.argv[1]], setup, sL, sR)
    t0 = _t.perf_counter()
    r = explore(job, audit=int(sys.argv[3]) if len(sys.argv) > 3 else 0)
    t1 = _t.perf_counter()
    print(sys.argv[1:3], "states", r["states"], r["stats"], "bad", len(r["bad"]), "time", round(t1-t0, 2))
    f = terminals(job, r)
    for kk, c in f.items(): print("  final", c, kk)
