import sys, time, io, os, logging, itertools
sys.path.insert(0, '/repo')
import warnings; warnings.filterwarnings("ignore")
os.environ.setdefault("TMPDIR", "/dev/shm")
import tempfile; tempfile.tempdir = "/dev/shm"
import cloudsync.utils as U
import xxhash
from base64 import b64encode
def debug_sig(t, size=3):
    if not t: return "0"
    th = xxhash.xxh64(); th.update(str(t).encode()); 
    return b64encode(th.digest()).decode("utf8")[0:size]
U.debug_sig = debug_sig
import cloudsync
import cloudsync.sync.state as S, cloudsync.sync.manager as M, cloudsync.cs as C, cloudsync.providers.mock as MK
for mod in (S, M, C, MK): mod.debug_sig = debug_sig
logging.disable(logging.CRITICAL)

class Clock:
    def __init__(self): self.t = 1000.0
    def time(self): return self.t
    def sleep(self, s): self.t += s
clk = Clock()
time.time = clk.time
time.sleep = clk.sleep

# deterministic oids
class Ctr:
    n = 0
_orig_fso_init = MK.MockFSObject.__init__
def _fso_init(self, path, object_type, oid_is_path, hash_func, contents=None, mtime=None):
    _orig_fso_init(self, path, object_type, oid_is_path, hash_func, contents, mtime)
    if not oid_is_path:
        Ctr.n += 1
        self.oid = "o%d" % Ctr.n
MK.MockFSObject.__init__ = _fso_init
class FCtr: n = 0
_fso_init2 = MK.MockFSObject.__init__
def _fso_init3(self, *a, **kw):
    FCtr.n += 1; self._vhash = FCtr.n
    _fso_init2(self, *a, **kw)
MK.MockFSObject.__init__ = _fso_init3
MK.MockFSObject.__hash__ = lambda self: self._vhash
MK.MockFSObject.__eq__ = lambda self, o: self is o

# deterministic SyncEntry hash
_orig_se_init = S.SyncEntry.__init__
class ECtr: n = 0
def _se_init(self, *a, **kw):
    ECtr.n += 1
    object.__setattr__(self, "_vseq", ECtr.n)
    _orig_se_init(self, *a, **kw)
S.SyncEntry.__init__ = _se_init
S.SyncEntry.__hash__ = lambda self: self._vseq
def reset():
    Ctr.n = 0; ECtr.n = 0; FCtr.n = 0; clk.t = 1000.0
