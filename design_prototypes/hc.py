from env import *
import itertools, collections
from cloudsync.hierarchical_cache import HierarchicalCache
from cloudsync.providers.mock import MockProvider
from cloudsync import FILE, DIRECTORY
def mk(cs=True):
    p = MockProvider(False, cs)
    return HierarchicalCache(p, "root", metadata_template={"k": int})
PATHS = ["/a", "/b", "/a/a", "/a/b", "/b/a"]
OIDS = ["1", "2", "3"]
OPS = []
for p in PATHS:
    for o in OIDS: OPS.append(("create", p, o))
    for o in OIDS[:2] + [None]: OPS.append(("mkdir", p, o))
    OPS.append(("delete_path", p))
    for q in PATHS:
        if p != q: OPS.append(("rename", p, q))
    for o in OIDS[:2]:
        OPS.append(("set_oid", p, o, FILE)); OPS.append(("set_oid", p, o, DIRECTORY))
for o in OIDS: OPS.append(("delete_oid", o))
def apply(c, op):
    k = op[0]
    if k == "create": c.create(op[1], op[2])
    elif k == "mkdir": c.mkdir(op[1], op[2])
    elif k == "delete_path": c.delete(path=op[1])
    elif k == "delete_oid": c.delete(oid=op[1])
    elif k == "rename": c.rename(op[1], op[2])
    elif k == "set_oid": c.set_oid(op[1], op[2], op[3])
def dump(c):
    out = []
    def rec(n, path):
        out.append((path, n.oid, n.type.value))
        for name in sorted(n.children):
            rec(n.children[name], path.rstrip("/") + "/" + name)
    rec(c._root, "/")
    return tuple(out), tuple(sorted((k, id(v) and v.full_path()) for k, v in c._oid_to_node.items()))
def invariants(c):
    errs = []
    tree, omap = dump(c)
    oids = [o for (_, o, _) in tree if o is not None]
    if len(oids) != len(set(oids)): errs.append(("dup oid", tree))
    tm = {o: p for (p, o, _) in tree if o is not None}
    om = dict(omap)
    if tm != om: errs.append(("oidmap != tree", tm, om))
    for p, o, t in tree:
        if o is not None:
            if c.get_path(o) != p: errs.append(("get_path", o, p, c.get_path(o)))
            if c.get_oid(p) != o: errs.append(("get_oid", p, o, c.get_oid(p)))
    return errs
print(len(OPS))
seen = {}; frontier = collections.deque([()]); seen[dump(mk())] = ()
bad = []; trans = 0; excs = collections.Counter()
MAXD = 3
while frontier:
    h = frontier.popleft()
    for op in OPS:
        c = mk()
        try:
            for o in h: apply(c, o)
        except Exception as e:
            raise
        try:
            apply(c, op)
        except Exception as e:
            excs[(op[0], type(e).__name__, str(e)[:60])] += 1
            bad.append((h + (op,), "EXC", repr(e)))
            continue
        trans += 1
        errs = invariants(c)
        if errs: bad.append((h + (op,), errs[0]))
        k = dump(c)
        if k not in seen:
            seen[k] = h + (op,)
            if len(h) + 1 < MAXD: frontier.append(h + (op,))
print("states", len(seen), "trans", trans, "bad", len(bad))
for k, v in excs.items(): print(k, v)
for b in [b for b in bad if b[1] != "EXC"][:5]: print(b)
for b in [b for b in bad if b[1] == "EXC"][:3]: print(b)
