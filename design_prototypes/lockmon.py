from world import *
import traceback, collections
from cloudsync.smartsync import SmartCloudSync
import cloudsync.sync.state as S
viol = collections.Counter()
orig = S.SyncState.updated
def updated(self, ent, side, key, val):
    if not self._loading and not self.lock._is_owned():
        fr = traceback.extract_stack(limit=8)
        site = " < ".join("%s:%d" % (f.filename.split("/")[-1], f.lineno) for f in reversed(fr[:-1]) if "cloudsync" in f.filename)
        viol[(key, site)] += 1
    return orig(self, ent, side, key, val)
S.SyncState.updated = updated
def run(smart):
    reset()
    l = MockProvider(True, True); r = MockProvider(False, True)
    l.connection_id = "L"; r.connection_id = "R"; l.connect({"k": 1}); r.connect({"k": 1})
    w = World.__new__(World); w.provs = (l, r); w.errors = []; w.applied = []
    cls = SmartCloudSync if smart else CloudSync
    w.cs = cls((l, r), roots=ROOTS, sleep=None); w.cs.aging = 0; w.cs.smgr._validate_provider_roots()
    def q():
        for i in range(40):
            for a in (0, 1, 2): w.step(a)
    w.user((1, "create", "a", b"1")); w.user((1, "mkdir", "d")); w.user((1, "create", "d/b", b"2")); w.user((0, "create", "c", b"3")); q()
    w.user((0, "rename", "c", "d/c")); w.user((1, "write", "a", b"7")); w.user((0, "write", "d/c", b"8")); q()
    if smart:
        w.cs.smart_sync_path("/remote/a", 1); q()
        w.user((0, "write", "a", b"5")); q()
        w.cs.smart_unsync_path("/remote/a", 1); q()
        list(w.cs.smart_listdir_path("/local"))
        i = l.info_path("/local/d/c"); l.delete(i.oid); w.cs.smart_delete_path(i.oid, "/local/d/c"); q()
    else:
        w.cs.walk(); q(); w.cs.forget(); q()
    print(w.tree(0), w.tree(1), w.errors)
run(False); print("plain:", dict(viol)); viol.clear()
run(True)
for k, v in viol.items(): print(v, k)
