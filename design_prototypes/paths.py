from env import *
import itertools, collections
from cloudsync.providers.mock import MockProvider
ALPHA = ['/', '\\', 'a', 'A', 'b', '.', ' ', 'é']
def strings(maxlen):
    for n in range(0, maxlen+1):
        for t in itertools.product(ALPHA, repeat=n):
            yield "".join(t)
viol = collections.Counter(); ex = {}
def V(k, *a):
    viol[k] += 1
    ex.setdefault(k, a)
for cs in (True, False):
    p = MockProvider(False, cs)
    S = list(strings(4))
    for s in S:
        if not s: continue
        try:
            n = p.normalize_path(s)
            if p.normalize_path(n) != n: V(("norm-idem", cs), s, n, p.normalize_path(n))
            ns = p.normalize_path_separators(s)
            if p.normalize_path_separators(ns) != ns: V(("normsep-idem", cs), s, ns)
            d, b = p.split(s)
            j = p.join(d, b)
            if not p.paths_match(j, s): V(("split-join", cs), s, d, b, j)
            if not p.paths_match(s, s): V(("match-refl", cs), s)
        except Exception as e:
            V(("exc", cs, type(e).__name__), s, repr(e))
    # folder/rel laws
    S3 = [s for s in strings(3) if s]
    for f in S3:
        for r in S3:
            try:
                j = p.join(f, r)
                rel = p.is_subpath(f, j)
                nr = p.normalize_path_separators(r)
                # expected: rel equivalent to sep + r (normalised)
                if p.normalize_path(r) != p.sep and p.normalize_path(f) != p.sep:
                    if not rel: V(("join-subpath", cs), f, r, j, rel)
                    elif not p.paths_match(rel, p.join(r)): V(("join-subpath-rel", cs), f, r, j, rel)
            except Exception as e:
                V(("exc2", cs, type(e).__name__), f, r, repr(e))
print(len(S))
for k, v in sorted(viol.items(), key=str): print(k, v, ex[k])
