from world import *
from cloudsync.sync.state import Storage
from cloudsync.event import EventManager
class DictStorage(Storage):
    def __init__(self, d=None): self.d = d if d is not None else {}; self.n = 0; self.writes = 0
    def create(self, tag, ser):
        self.writes += 1; self.n = max([self.n] + [k for t in self.d.values() for k in t]) + 1
        self.d.setdefault(tag, {})[self.n] = ser; return self.n
    def update(self, tag, ser, eid):
        self.writes += 1
        if eid not in self.d.get(tag, {}): raise ValueError("id %s doesn't exist" % eid)
        self.d[tag][eid] = ser; return 1
    def delete(self, tag, eid):
        self.writes += 1; self.d.get(tag, {}).pop(eid, None)
    def read_all(self, tag=None):
        if tag is not None: return dict(self.d.get(tag, {}))
        return {t: dict(v) for t, v in self.d.items() if v}
    def read(self, tag, eid): return self.d.get(tag, {}).get(eid)

def mkcs(provs, storage):
    cs = CloudSync(provs, roots=ROOTS, storage=storage, sleep=None); cs.aging = 0
    cs.smgr._validate_provider_roots(); return cs
def quiesce(w):
    for i in range(100):
        en = w.enabled()
        if not en: return i
        for a in en: w.step(a)
    raise Exception("no quiesce")
reset()
l = MockProvider(False, True); r = MockProvider(False, True)
l.connection_id = "L"; r.connection_id = "R"; l.connect({"k": 1}); r.connect({"k": 1})
st = DictStorage()
w = World.__new__(World); w.provs = (l, r); w.cs = mkcs((l, r), st); w.errors = []; w.applied = []
w.user((0, "create", "a", b"1")); w.user((0, "mkdir", "d")); quiesce(w)
print(w.tree(0), w.tree(1), {t: len(v) for t, v in st.d.items()})
w.user((0, "create", "d/b", b"2")); w.step(0)   # intake only, not synced
# stop
for e in w.cs.emgrs: EventManager._provider_guard.remove(e.provider)
w.user((1, "create", "c", b"3"))   # offline change
w.user((0, "write", "a", b"9"))
for p in (l, r):
    p.disconnect(); p._root_path = p._root_oid = None; p._cursor = p._latest_cursor; p.connect({"k": 1})
calls = []
orig = r.create
w.cs = mkcs((l, r), DictStorage(st.d))
n = quiesce(w)
print(n, w.tree(0), w.tree(1), w.errors)
print(w.cs.state.pretty_print(use_sigs=False))
