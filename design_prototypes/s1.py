setup = [(0, "mkdir", "d")]
sL = [(0, "mkdir", "d/c"), (0, "rename", "d", "e")]
sR = []
