setup = [(0, "create", "a", b"1")]
sL = [(0, "write", "a", b"2")]
sR = [(1, "write", "a", b"3")]
