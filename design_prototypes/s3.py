setup = [(0, "create", "a", b"1"), (0, "mkdir", "d")]
sL = [(0, "rename", "a", "d/a"), (0, "write", "d/a", b"2")]
sR = [(1, "create", "b", b"3"), (1, "delete", "b")]
