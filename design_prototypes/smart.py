from world import *
from cloudsync.smartsync import SmartCloudSync
reset()
l = MockProvider(True, True); r = MockProvider(False, True)
l.connection_id = "L"; r.connection_id = "R"; l.connect({"k": 1}); r.connect({"k": 1})
w = World.__new__(World); w.provs = (l, r); w.errors = []; w.applied = []
w.cs = SmartCloudSync((l, r), roots=ROOTS, sleep=None); w.cs.aging = 0; w.cs.smgr._validate_provider_roots()
def quiesce(w, n=60):
    for i in range(n):
        en = w.enabled()
        if not en: return i
        before = w.canon()
        for a in en: w.step(a)
        if w.canon()[0:2] == before[0:2] and en == [2]: return ("stuck-noop", i)
    return "no quiesce"
w.user((1, "create", "a", b"1")); w.user((1, "mkdir", "d")); w.user((1, "create", "d/b", b"2")); w.user((0, "create", "c", b"3"))
print(quiesce(w), w.tree(0), w.tree(1), w.errors)
print(w.cs.state.pretty_print(use_sigs=False))
print([ (i.path, i.is_synced) for i in w.cs.smart_listdir_path("/local")])
print("busy", w.cs.busy, "storage changeset", len(w.cs.state._changeset_storage))
w.cs.smart_sync_path("/remote/a", 1)
print(quiesce(w), w.tree(0), w.tree(1), w.errors)
w.user((0, "write", "a", b"5"))
print(quiesce(w), w.tree(0), w.tree(1), w.errors)
print(w.cs.smart_unsync_path("/remote/a", 1))
print(quiesce(w), w.tree(0), w.tree(1), w.errors)
print([ (i.path, i.is_synced) for i in w.cs.smart_listdir_path("/local")])
