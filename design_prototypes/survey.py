import sys, itertools, multiprocessing as mp, time as _t, json
from bfs import *
BASE = [(0, "create", "a", b"1"), (0, "mkdir", "d"), (0, "create", "d/b", b"2")]
def OPS(s):
    return [
     (s, "create", "c", b"3"), (s, "create", "d/c", b"3"), (s, "write", "a", b"4"), (s, "write", "d/b", b"4"),
     (s, "delete", "a"), (s, "delete", "d/b"), (s, "rename", "a", "c"), (s, "rename", "a", "d/a"),
     (s, "rename", "d/b", "b"), (s, "rename", "d", "e"), (s, "mkdir", "e"), (s, "mkdir", "d/e"), (s, "delete", "d"),
    ]
def job(args):
    cfgname, sL, sR = args
    t0 = _t.perf_counter()
    try:
        r = explore(CFGS[cfgname], BASE, sL, sR, maxdepth=50, maxstates=30000)
    except Exception as e:
        import traceback
        return (cfgname, sL, sR, "EXC", traceback.format_exc()[-800:], 0, 0, 0)
    kinds = collections.Counter()
    for b in r["bad"]:
        kinds["ERR" if b[1] == "ERR" else "DEPTH" if b[1] == "DEPTH" else "DIVERGE"] += 1
    nconf = sum(c for f, c in r["finals"].items() if "conflicted" in f[1] or "conflicted" in f[2])
    nfin = sum(r["finals"].values())
    return (cfgname, sL, sR, dict(kinds), r["states"], r["trans"], nfin, nconf, r["capped"], round(_t.perf_counter()-t0,1), [b for b in r["bad"][:2]])
if __name__ == "__main__":
    mode = sys.argv[1]
    jobs = []
    for cfgname in CFGS:
        if mode == "one":
            for s in (0, 1):
                for o in OPS(s):
                    jobs.append((cfgname, [o] if s == 0 else [], [o] if s == 1 else []))
        elif mode == "two-same":
            for s in (0, 1):
                for o1, o2 in itertools.product(OPS(s), OPS(s)):
                    jobs.append((cfgname, [o1, o2] if s == 0 else [], [o1, o2] if s == 1 else []))
        elif mode == "two-cross":
            for o1, o2 in itertools.product(OPS(0), OPS(1)):
                jobs.append((cfgname, [o1], [o2]))
    t0 = _t.perf_counter()
    with mp.Pool(16) as pool:
        res = pool.map(job, jobs, chunksize=1)
    nb = 0; tot_states = 0; tot_trans = 0
    out = open("/tmp/proto/survey_%s.txt" % mode, "w")
    for r in res:
        if r[3] == "EXC": print("EXC", r[:3], r[4]); nb += 1; continue
        tot_states += r[4]; tot_trans += r[5]
        if r[3] or r[8]:
            nb += 1
        print(r, file=out)
    print(mode, "jobs", len(jobs), "bad jobs", nb, "states", tot_states, "trans", tot_trans, "wall", round(_t.perf_counter()-t0,1))
