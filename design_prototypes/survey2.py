import sys, itertools, multiprocessing as mp, time as _t, collections
import canon2
from bfs import *
import bfs
_user = World.user
def user2(self, op):
    side, kind = op[0], op[1]
    p = self.provs[side]
    if not hasattr(self, "written"): self.written = set(); self.destroyed = set()
    if kind in ("delete", "write"):
        i = p.info_path(ROOTS[side] + "/" + op[2])
        if i and i.otype == FILE:
            b = BytesIO(); p.download(i.oid, b); cur = b.getvalue()
        else: cur = None
    ok = _user(self, op)
    if ok:
        if kind in ("create", "write"): self.written.add(op[3])
        if kind in ("delete", "write") and cur is not None: self.destroyed.add(cur)
    return ok
World.user = user2
def check_converged(w):
    tl, tr = w.tree(0), w.tree(1)
    kl = {k: v for k, v in tl.items() if not conflicted(k)}
    kr = {k: v for k, v in tr.items() if not conflicted(k)}
    present = set(v for v in list(tl.values()) + list(tr.values()) if v is not None)
    need = getattr(w, "written", set()) - getattr(w, "destroyed", set())
    lost = need - present
    if lost: tl = dict(tl); tl["!LOST"] = tuple(sorted(lost))
    return (kl == kr) and not lost, tl, tr
bfs.check_converged = check_converged
BASE = [(0, "create", "a", b"1"), (0, "mkdir", "d")]
def OPS(s, tag):
    t = tag.encode()
    return [
     (s, "write", "a", b"W" + t), (s, "delete", "a"), (s, "rename", "a", "c"), (s, "rename", "a", "d/a"),
     (s, "create", "c", b"C" + t), (s, "mkdir", "c"), (s, "create", "d/a", b"D" + t), (s, "delete", "d"), (s, "rename", "d", "c"),
    ]
def job(args):
    cfgname, sL, sR = args
    t0 = _t.perf_counter()
    try:
        r = explore(CFGS[cfgname], BASE, sL, sR, maxdepth=70, maxstates=30000)
    except Exception as e:
        import traceback
        return (cfgname, sL, sR, "EXC", traceback.format_exc()[-800:], 0, 0, 0)
    kinds = collections.Counter()
    for b in r["bad"]:
        k = "ERR" if b[1] == "ERR" else "DEPTH" if b[1] == "DEPTH" else ("LOST" if "!LOST" in b[1] else "DIVERGE")
        kinds[k] += 1
    nfin = sum(r["finals"].values())
    return (cfgname, sL, sR, dict(kinds), r["states"], r["trans"], nfin, r["capped"], round(_t.perf_counter()-t0,1), [b for b in r["bad"] if b[1] not in ("ERR","DEPTH") and "!LOST" in b[1]][:1] or r["bad"][:1])
if __name__ == "__main__":
    jobs = []
    for cfgname in CFGS:
        for o1, o2 in itertools.product(OPS(0, "l"), OPS(1, "r")):
            jobs.append((cfgname, [o1], [o2]))
    t0 = _t.perf_counter()
    with mp.Pool(16) as pool:
        res = pool.map(job, jobs, chunksize=1)
    nb = 0; ts = 0; tt = 0
    out = open("/tmp/proto/survey2.txt", "w")
    agg = collections.Counter()
    for r in res:
        if r[3] == "EXC": print("EXC", r[:3], r[4]); nb += 1; continue
        ts += r[4]; tt += r[5]
        if r[3] or r[7]: nb += 1
        for k in r[3]: agg[k] += 1
        print(r, file=out)
    print("jobs", len(jobs), "bad jobs", nb, agg, "states", ts, "trans", tt, "wall", round(_t.perf_counter()-t0,1))
