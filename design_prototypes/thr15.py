"""Prototype C15b: real CloudSync threads under baton scheduler, scheduling points at lock ops."""
import sys
from env import *
import tsched as TS
from tsched import Sched, ShimThreading, ShimTime, ShimEvent, ShimThread
import cloudsync.runnable as R
import threading as _th
from io import BytesIO
from cloudsync import CloudSync
from cloudsync.providers.mock import MockProvider
R.threading = ShimThreading
class VT:
    monotonic = staticmethod(lambda: clk.t); time = staticmethod(lambda: clk.t)
    @staticmethod
    def sleep(s): clk.t += s
R.time = VT

class ShimRLock:
    def __init__(self): self.owner = None; self.count = 0
    def acquire(self, blocking=True, timeout=-1):
        S = TS.SCHED
        me = S.cur
        if self.owner == me: self.count += 1; return True
        while True:
            if self.owner is None:
                S.point()           # scheduling point before taking the lock
                if self.owner is None:
                    self.owner = me; self.count = 1; return True
            else:
                S.block('lock', self, None)
    def release(self):
        self.count -= 1
        if self.count == 0:
            self.owner = None
            TS.SCHED.point()
    __enter__ = lambda self: self.acquire()
    def __exit__(self, *a): self.release()
    def _is_owned(self): return self.owner == TS.SCHED.cur
# extend scheduler's enabled() for 'lock'
_en = Sched.enabled
def enabled(self):
    en = []
    for i, t in enumerate(self.threads):
        if t.done: continue
        if t.blocked is None: en.append(i)
        else:
            kind, obj, deadline = t.blocked
            if kind == 'lock':
                if obj.owner is None: en.append(i)
            elif kind == 'event' and obj._flag: en.append(i)
            elif kind == 'join' and obj.done: en.append(i)
            elif deadline is not None: en.append(i)
    return en
Sched.enabled = enabled
_block = Sched.block
def block(self, kind, obj, timeout):
    if kind != 'lock': return _block(self, kind, obj, timeout)
    me = self.cur; t = self.threads[me]
    t.blocked = (kind, obj, None); self.point(); t.blocked = None
    return True
Sched.block = block

def run_one(prefix):
    reset()
    s = Sched(prefix, ("__nofile__",)); TS.SCHED = s
    l = MockProvider(False, True); r = MockProvider(False, True)
    l.connection_id = "L"; r.connection_id = "R"; l.connect({"k": 1}); r.connect({"k": 1})
    cs = CloudSync((l, r), roots=("/local", "/remote"), sleep=None); cs.aging = 0
    cs.smgr._validate_provider_roots()
    l.create("/local/a", BytesIO(b"1"))
    cs.state.lock = ShimRLock(); l._lock = ShimRLock(); r._lock = ShimRLock()
    def loop(m, n):
        c = [0]
        def until():
            c[0] += 1; return c[0] >= n
        return lambda: m.run(until=until, sleep=0.001)
    def app():
        l.mkdir("/local/d"); r.create("/remote/b", BytesIO(b"2"))
    s.spawn("smgr", loop(cs.smgr, 3)); s.spawn("e0", loop(cs.emgrs[0], 2)); s.spawn("e1", loop(cs.emgrs[1], 2)); s.spawn("app", app)
    s.run()
    excs = [t.exc for t in s.threads if t.exc]
    # sequential quiesce
    cs.state.lock = _th.RLock(); l._lock = _th.RLock(); r._lock = _th.RLock()
    for m in (cs.emgrs[0], cs.emgrs[1], cs.smgr): m._Runnable__stopped = False
    for i in range(60):
        for m in (cs.emgrs[0], cs.emgrs[1], cs.smgr):
            clk.t += 1
            try: m.do()
            except R._BackoffError: pass
    def tree(p, root):
        out = {}
        for ev in p.walk(root):
            out[ev.path[len(root):]] = None if ev.otype.value == "dir" else p._mock_fs.get(ev.oid).contents
        return out
    tl, tr = tree(l, "/local"), tree(r, "/remote")
    try: cs.state.assert_index_is_correct(); idx = True
    except AssertionError: idx = False
    cs.done()
    return s, (tl == tr, idx, tuple(sorted(tl.items())), tuple(map(repr, excs)), s.deadlock)

def explore(bound):
    import time as _t; t0 = _t.perf_counter()
    execs = 0; outcomes = {}; stack = [[]]; maxpts = 0
    while stack:
        prefix = stack.pop()
        s, out = run_one(prefix); execs += 1
        outcomes[out] = outcomes.get(out, 0) + 1
        maxpts = max(maxpts, len(s.points))
        choices = [p[1] for p in s.points]
        pre = 0; costs = []
        for i, (order, c, run_en) in enumerate(s.points):
            costs.append(pre)
            if c != 0 and run_en: pre += 1
        for i in range(len(prefix), len(s.points)):
            order, c, run_en = s.points[i]
            if costs[i] + (1 if run_en else 0) > bound: continue
            for alt in range(1, len(order)):
                stack.append(choices[:i] + [alt])
    print("bound", bound, "execs", execs, "points/exec", maxpts, "outcomes", len(outcomes), "time", round(_t.perf_counter()-t0, 1))
    for k, v in outcomes.items(): print("   ", v, k)
for b in (0, 1):
    explore(b)
