"""Prototype: controlled scheduler for real threads, line-level preemption in selected files."""
import sys, threading as _th, time as _time, queue as _queue, os
sys.path.insert(0, '/repo')
import warnings; warnings.filterwarnings("ignore")
import logging; logging.disable(logging.CRITICAL)

class Deadlock(Exception): pass
class Abort(BaseException): pass

class CThread:
    def __init__(self, sched, name, target):
        self.sched, self.name, self.target = sched, name, target
        self.sem = _th.Semaphore(0)
        self.done = False
        self.blocked = None   # None or (kind, obj, deadline)
        self.wake_reason = None
        self.real = _th.Thread(target=self._run, daemon=True)
        self.exc = None
    def _run(self):
        self.sem.acquire()
        sys.settrace(self.sched.tracer)
        try:
            self.target()
        except Abort:
            pass
        except BaseException as e:
            self.exc = e
        finally:
            sys.settrace(None)
            self.done = True
            self.sched.thread_finished(self)

class Sched:
    def __init__(self, prefix, files):
        self.prefix = list(prefix); self.files = files
        self.threads = []; self.cur = None
        self.points = []   # (enabled tids, chosen idx, running_enabled)
        self.now = 0.0
        self.main_sem = _th.Semaphore(0)
        self.aborting = False
        self.nsteps = 0
    def tracer(self, frame, event, arg):
        if frame.f_code.co_filename.endswith(self.files):
            return self.local
        return None
    def local(self, frame, event, arg):
        if event == 'line':
            self.point()
        return self.local
    def spawn(self, name, target):
        t = CThread(self, name, target); self.threads.append(t); t.real.start(); return t
    def enabled(self):
        en = []
        for i, t in enumerate(self.threads):
            if t.done: continue
            if t.blocked is None: en.append(i)
            else:
                kind, obj, deadline = t.blocked
                if kind == 'event' and obj._flag: en.append(i)
                elif kind == 'join' and obj.done: en.append(i)
                elif kind == 'queue' and obj.items: en.append(i)
                elif deadline is not None: en.append(i)   # timeout may fire
        return en
    def point(self):
        """called by the running thread; may switch."""
        if self.aborting: raise Abort()
        me = self.cur
        self.nsteps += 1
        if self.nsteps > 5000: self.aborting = True; self.main_sem.release(); raise Abort()
        en = self.enabled()
        if not en:
            self.aborting = True; self.deadlock = True; self.main_sem.release(); raise Abort()
        # canonical order: running first if enabled
        def lazy(i):
            b = self.threads[i].blocked
            if b is None: return False
            kind, obj, deadline = b
            ok = (kind == 'event' and obj._flag) or (kind == 'join' and obj.done) or (kind == 'queue' and bool(obj.items))
            return not ok
        eager = [i for i in en if not lazy(i)]; lz = [i for i in en if lazy(i)]
        order = ([me] if me in eager else []) + [i for i in eager if i != me] + lz
        k = len(self.points)
        c = self.prefix[k] if k < len(self.prefix) else 0
        if c >= len(order): raise RuntimeError("replay divergence")
        self.points.append((tuple(order), c, me in eager or bool(eager)))
        nxt = order[c]
        if nxt != me:
            self.cur = nxt
            self.threads[nxt].sem.release()
            self.threads[me].sem.acquire()
            if self.aborting: raise Abort()
        t = self.threads[me]
    def block(self, kind, obj, timeout):
        me = self.cur; t = self.threads[me]
        t.blocked = (kind, obj, None if timeout is None else self.now + timeout)
        self.point()
        kind, obj, deadline = t.blocked; t.blocked = None
        ok = (kind == 'event' and obj._flag) or (kind == 'join' and obj.done) or (kind == 'queue' and bool(obj.items))
        if not ok:
            self.now = max(self.now, deadline)
        return ok
    def thread_finished(self, t):
        # pick next
        en = self.enabled()
        if all(x.done for x in self.threads):
            self.main_sem.release(); return
        if not en:
            self.deadlock = True; self.aborting = True; self.main_sem.release(); return
        k = len(self.points)
        c = self.prefix[k] if k < len(self.prefix) else 0
        self.points.append((tuple(en), c, False))
        nxt = en[c]; self.cur = nxt; self.threads[nxt].sem.release()
    def run(self):
        self.deadlock = False
        self.cur = 0
        self.threads[0].sem.release()
        self.main_sem.acquire()
        if self.aborting:
            for t in self.threads:
                if not t.done: t.sem.release()
        for t in self.threads: t.real.join(2)

SCHED = None
class ShimEvent:
    def __init__(self): self._flag = False
    def set(self): SCHED.point(); self._flag = True
    def clear(self): SCHED.point(); self._flag = False
    def is_set(self): return self._flag
    def wait(self, timeout=None):
        if self._flag: SCHED.point(); return True
        return SCHED.block('event', self, timeout)
class ShimThread:
    def __init__(self, target=None, kwargs=None, daemon=None, name=None):
        self.target, self.kwargs, self.name, self.ct = target, kwargs or {}, name, None
    def start(self):
        self.ct = SCHED.spawn(self.name, lambda: self.target(**self.kwargs)); SCHED.point()
    def is_alive(self): return self.ct is not None and not self.ct.done
    def join(self, timeout=None):
        if self.ct is None or self.ct.done: return
        SCHED.block('join', self.ct, timeout)
    def __eq__(self, o): return o is self
    def __ne__(self, o): return o is not self
    def __hash__(self): return id(self)
class ShimThreading:
    Event = ShimEvent; Thread = ShimThread
    @staticmethod
    def current_thread():
        ct = SCHED.threads[SCHED.cur]
        return getattr(ct, "shim", ct)
class ShimTime:
    @staticmethod
    def monotonic(): return SCHED.now
    @staticmethod
    def time(): return SCHED.now
    @staticmethod
    def sleep(s): SCHED.now += s

import cloudsync.runnable as R
R.threading = ShimThreading; R.time = ShimTime
_spawn = Sched.spawn
def spawn2(self, name, target):
    return _spawn(self, name, target)

def harness(sched, log):
    class Svc(R.Runnable):
        def __init__(s): s.n = 0; s.cleaned = 0
        def do(s): s.n += 1; log.append(("do", s.n))
        def done(s): s.cleaned += 1; log.append(("done",))
    svc = Svc()
    def app():
        svc.start(sleep=0.01)
        svc.stop(forever=True)
        log.append(("stopped", svc.n))
    return app, svc

def run_one(prefix):
    global SCHED
    log = []
    s = Sched(prefix, ("cloudsync/runnable.py",)); SCHED = s
    app, svc = harness(s, log)
    # fix ShimThread identity: current_thread compares with self.__thread (ShimThread)
    orig_start = ShimThread.start
    def start(self):
        self.ct = SCHED.spawn(self.name, lambda: self.target(**self.kwargs)); self.ct.shim = self; SCHED.point()
    ShimThread.start = start
    s.spawn("app", app)
    s.run()
    return s, log, svc

def explore(bound):
    execs = 0; outcomes = {}
    stack = [[]]
    t0 = _time.perf_counter()
    while stack:
        prefix = stack.pop()
        s, log, svc = run_one(prefix); execs += 1
        # oracle: no do after 'stopped'
        key = tuple(log)
        outcomes[key] = outcomes.get(key, 0) + 1
        if s.deadlock: print("DEADLOCK", prefix); 
        idx = [i for i, e in enumerate(log) if e[0] == "stopped"]
        if idx and any(e[0] == "do" for e in log[idx[0]+1:]): print("VIOLATION do after stop", prefix, log[-5:])
        if svc.cleaned != 1: print("VIOLATION cleaned", svc.cleaned, prefix, log[-5:])
        # children
        choices = [p[1] for p in s.points]
        pre = 0
        costs = []
        for i, (order, c, run_en) in enumerate(s.points):
            costs.append(pre)
            if c != 0 and run_en: pre += 1
        for i in range(len(prefix), len(s.points)):
            order, c, run_en = s.points[i]
            cost = costs[i] + (1 if run_en else 0)
            if cost > bound: continue
            for alt in range(1, len(order)):
                stack.append(choices[:i] + [alt])
    print("bound", bound, "execs", execs, "distinct outcomes", len(outcomes), "time", round(_time.perf_counter()-t0, 2))
    for k, v in list(outcomes.items())[:6]: print("  ", v, k)

if __name__ == "__main__":
    for b in (0, 1, 2):
        explore(b)
