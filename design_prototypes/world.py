from env import *
from io import BytesIO
from cloudsync import CloudSync, LOCAL, REMOTE, DIRECTORY, FILE
from cloudsync.providers.mock import MockProvider
from cloudsync.runnable import _BackoffError
import cloudsync.exceptions as ex
import shutil

ROOTS = ("/local", "/remote")

class World:
    def __init__(self, cfg):
        reset()
        self.cfg = cfg
        (lo, lc, lf), (ro, rc, rf) = cfg
        l = MockProvider(lo, lc, filter_events=lf); r = MockProvider(ro, rc, filter_events=rf)
        l.connection_id = "L"; r.connection_id = "R"
        l.connect({"k":"v"}); r.connect({"k":"v"})
        self.provs = (l, r)
        self.storage = None
        self.cs = CloudSync((l, r), roots=ROOTS, sleep=None)
        self.cs.aging = 0
        self.cs.smgr._validate_provider_roots()
        self.applied = []
        self.errors = []

    def close(self):
        self.cs.done()
        for e in self.cs.emgrs: pass

    # ---- user ops: (side, op, args...) with relative paths
    def user(self, op):
        side, kind = op[0], op[1]
        p = self.provs[side]; root = ROOTS[side]
        ap = lambda rel: root + "/" + rel
        try:
            if kind == "create":
                p.create(ap(op[2]), BytesIO(op[3]))
            elif kind == "write":
                i = p.info_path(ap(op[2]))
                if not i or i.otype != FILE: raise ex.CloudFileNotFoundError()
                p.upload(i.oid, BytesIO(op[3]))
            elif kind == "mkdir":
                p.mkdir(ap(op[2]))
            elif kind == "delete":
                i = p.info_path(ap(op[2]))
                if not i: raise ex.CloudFileNotFoundError()
                p.delete(i.oid)
            elif kind == "rename":
                i = p.info_path(ap(op[2]))
                if not i: raise ex.CloudFileNotFoundError()
                p.rename(i.oid, ap(op[3]))
            else: raise ValueError(kind)
            self.applied.append(op); return True
        except ex.CloudException as e:
            self.applied.append(("fail",)+tuple(op)); return False

    def step(self, which):
        clk.t += 1.0
        m = (self.cs.emgrs[0], self.cs.emgrs[1], self.cs.smgr)[which]
        try:
            m.do()
        except _BackoffError:
            pass
        except Exception as e:
            self.errors.append((which, repr(e)))

    def enabled(self):
        en = []
        for s in (0, 1):
            p = self.provs[s]; em = self.cs.emgrs[s]
            if p._cursor < p._latest_cursor or em._queue or em.need_walk or em._first_do:
                en.append(s)
        if self.cs.state._changeset_storage:
            en.append(2)
        return en

    def tree(self, side):
        p = self.provs[side]; out = {}
        for ev in p.walk(ROOTS[side]):
            rel = ev.path[len(ROOTS[side])+1:]
            if ev.otype == DIRECTORY: out[rel] = None
            else:
                b = BytesIO(); p.download(ev.oid, b); out[rel] = b.getvalue()
        return out

    def canon(self):
        st = self.cs.state
        now = clk.t
        def ts(v):
            if not v: return v
            return round(v - now, 4)
        ents = []
        for e in sorted(st.get_all(discarded=True) | set(st._changeset_storage), key=lambda e: e._vseq):
            row = []
            for s in (0, 1):
                ss = e[s]
                row.append((ss._otype.value if ss._otype else None, ss._hash, ts(ss._changed), ts(ss._last_gotten) if ss._last_gotten else 0, ss._sync_hash, ss._sync_path,
                            ss._path, ss._oid, ss._exists.value, ss._force_sync, bool(ss._temp_file and os.path.exists(ss._temp_file)), ss._saved_exists.value if ss._saved_exists else None))
            ents.append((tuple(row), e._ignored.value, e._priority, e in st._changeset_storage))
        provs = []
        for s in (0, 1):
            p = self.provs[s]
            objs = sorted((k, o.path, o.oid, o.type, o.contents, o.exists) for k, o in p._mock_fs._objects.items())
            evs = tuple((e._action, e._target_object.oid, e._target_object.path, e._target_object.exists, e._target_object.type, e._prior_oid) for e in p._events[p._cursor+1:])
            em = self.cs.emgrs[s]
            provs.append((tuple(objs), evs, em.need_walk, em._first_do, bool(em._queue), em.in_backoff))
        return (tuple(ents), tuple(provs), self.cs.smgr.in_backoff, ts(st._last_changed_time))
