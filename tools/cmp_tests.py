#!/venv/bin/python
"""usage: cmp_tests.py <junit.xml> : every test listed in /tmp/seed/passing_tests.txt must still pass"""
import sys, xml.etree.ElementTree as ET
want = [l.strip() for l in open('/tmp/seed/passing_tests.txt') if l.strip()]
res = {}
for tc in ET.parse(sys.argv[1]).iter('testcase'):
    res[tc.get('classname') + "::" + tc.get('name')] = not any(c.tag in ('failure', 'error', 'skipped') for c in tc)
bad = [t for t in want if not res.get(t)]
print("still passing %d/%d" % (len(want) - len(bad), len(want)))
for b in bad[:20]:
    print("  NOW FAILING:", b)
sys.exit(1 if bad else 0)
