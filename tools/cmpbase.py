#!/venv/bin/python
"""compare a junit xml with the pinned baseline: all stable_pass tests must still pass"""
import json, sys, xml.etree.ElementTree as ET
b = json.load(open('/root/.vp/BASELINE.json'))
res = {}
for tc in ET.parse(sys.argv[1]).iter('testcase'):
    n = tc.get('classname') + "::" + tc.get('name')
    res[n] = not any(c.tag in ('failure', 'error', 'skipped') for c in tc)
miss = [n for n in b['stable_pass'] if not res.get(n)]
print("stable_pass still passing: %d/%d" % (len(b['stable_pass']) - len(miss), len(b['stable_pass'])), "missing:", miss)
print("total pass", sum(res.values()), "of", len(res))
sys.exit(1 if miss else 0)
