"""Root-cause grouping of reviewed findings (labels only; matching is always exact on job+kind+sig)."""
import json


def _ops(job):
    sc = job.get("scripts") or [[], []]
    return [(s, op) for s in (0, 1) for op in sc[s]] + [(s, op) for s, op in (job.get("mid") or [])]


def _targets(op):
    """names an op brings into existence"""
    if op[0] in ("create", "mkdir"):
        return [op[1]]
    if op[0] == "rename":
        return [op[2]]
    return []


def _under(p, d):
    return p.startswith(d + "/")


def classify(c):
    job = json.loads(c["job"]) if isinstance(c["job"], str) else c["job"]
    kind = c["kind"]
    if c["property"] == "C09" and (job.get("cfg") or {}).get("backend") == "mock":
        # cloudsync/tests/fixtures/mock_storage.py is part of the (unedited) test suite
        return "G5-mockstorage-fixture"
    if c["property"] == "C11" and kind == "pending-mismatch" and "scripts" not in job and c["sig"] == "set_oid":
        # state level, depth 4: an entry whose only change flag sits on a side that has lost its id is put back into the
        # pending set when the OTHER side is (re-)assigned an id (_change_oid adds on `either side changed`)
        return "G17-pending-set-readmits-entry-whose-changed-side-has-no-id"
    if c["property"] == "C11" and kind == "pending-forgotten-entry" and "scripts" not in job and c["sig"] == "update" and \
            (job.get("cfg") or {}).get("oip") and (job.get("cfg") or {}).get("prefix"):
        # state level, path-id local side, start state "linked pair + local-only entry": after the pair's remote half has been
        # moved to the other entry, a rename event (prior id = the pair's local id) onto the other entry's id ousts that entry,
        # which stays in the pending set with no id on either side - the state-level form of G18
        return "G18-id-take-over-leaves-ghost-entry-in-pending-set"
    if c["property"] == "C11" and job.get("base") == "B3" and kind.startswith(("engine:pending", "reloaded:pending")):
        # id take-over on a path-id side (b removed, a renamed onto b) while the peer deletes/edits b: the ousted entry keeps
        # sitting in the pending set with no id on either side / without any change flag
        return "G18-id-take-over-leaves-ghost-entry-in-pending-set"
    if c["property"] == "C01" and job.get("cfg") == "pp" and kind == "diverge" and \
            all(any(op[0] == "rename" and op[1] == "a" for op in sc) for sc in (job.get("scripts") or [[], []])):
        # both accounts path-addressed: each side's rename of the same file arrives as delete + create; together with an
        # edit on one side the engine re-creates the old name on one side and keeps both new names, the trees differ for good
        return "G20-double-rename-plus-edit-on-two-path-id-accounts"
    if kind == "midstep-lost" and job.get("mid"):
        # check-then-act: the engine has read one side (hash/refresh/download) and is about to upload to the other when the
        # peer's user writes that file; the upload overwrites the peer's new bytes without a conflict being noticed
        return "G19-peer-edit-between-engine-read-and-upload-is-overwritten"
    ops = _ops(job)
    opts = job.get("opts") or {}
    if opts.get("resolver") == "merged_keep" and kind == "noquiesce":
        # resolver answers (merged data, keep=True): both originals are renamed to .conflicted and the merged file is
        # created on both sides; the new files are seen as a fresh create/create conflict and the cycle repeats
        return "G4-merged-keep-never-quiesces"
    if c["property"] == "C06" and kind == "restart-spurious-transfer" and job["cfg"] in ("po", "pci", "pp"):
        # path-id local side: the remote user renames a file and re-creates the old name while the engine is down; after
        # the restart (sync loop first) the engine re-uploads bytes the remote already holds (wasted transfer, no loss)
        return "G10-path-id-rename-recreate-reuploads"
    if c["property"] == "C06" and kind == "restart-not-propagated" and job["cfg"] == "pci" and \
            any(op[0] == "rename" and op[1].lower() == op[2].lower() for _, op in ops) and any(op[0] == "write" for _, op in ops):
        # path-addressed, case-insensitive local account: while the engine is down a synced file is renamed to another
        # spelling of its name AND edited; after a walk fallback the new spelling is a new id, its upload collides with the
        # peer's old spelling, and the edit ends up in a local .conflicted file instead of reaching the peer
        return "G14-case-rename-plus-edit-offline-walk-conflict"
    if c["property"] == "C02" and job.get("base") == "B3" and kind == "lost" and job["cfg"] in ("op", "pp", "po", "pci"):
        # path-id side renames b->c and then a->b (seen as delete/create pairs) while the peer's b holds the newest bytes:
        # the peer's b is deleted out of the way of the incoming a->b, and its entry's deletion is then propagated to the
        # renamed copy c - the newest bytes survive on neither side
        return "G15-path-id-rename-chain-deletes-displaced-file-on-both-sides"
    if c["property"] in ("C04", "C01", "C03") and job["cfg"] in ("po", "pp", "op", "pci", "plci"):
        for side in (0, 1):
            sc = (job.get("scripts") or [[], []])[side]
            rn = [op for op in sc if op[0] == "rename"]
            if len(rn) >= 3 and rn[0][2] == rn[-1][1] and any(o[2] == rn[0][1] for o in rn[1:]):
                # two files swap names through a temporary name; with a path-id peer the last step (temp -> second name) is
                # applied as a fresh create and the temporary name stays behind as an extra file on both sides
                return "G16-rename-cycle-path-id-peer-leaves-temporary-name"
    if any(len(op) > 2 and op[0] in ("write", "create") and op[2] == "SAME" for _, op in ops) and \
            any(op[0] == "rename" for _, op in ops):
        # both sides wrote identical bytes and one also renamed: the silent equal-content merge records the current
        # paths as synced and the rename is never propagated
        return "G7-equal-content-merge-swallows-rename"
    if c["property"] == "C14" and (job.get("base") == "B4" or job.get("phases")):
        # a name is re-used by a different object (folder renamed away / deleted, then a new object created under the old
        # name) and the old object's events are delivered late, duplicated or after the new object's create event
        return "G11-name-reuse-with-late-events"
    for side in (0, 1):
        sc = list((job.get("scripts") or [[], []])[side]) + [o for s_, o in (job.get("mid") or []) if s_ == side]
        for i, op in enumerate(sc):
            if op[0] == "rename" and job.get("cfg") in ("po", "pci", "pp", "op", "plci") and \
                    any(o2[0] == "rename" and o2[2] == op[1] and o2[1] == op[2] for o2 in sc[i + 1:]):
                # path-id side: a file is renamed away and back; the intermediate name's create event outlives the object,
                # after 5 punts handle_changed_is_missing revives/renames on the origin side (same mechanism as G3)
                return "G3-missing-revive-origin-write"
            if op[0] in ("rename", "delete") and \
                    any((o2[0] in ("create", "mkdir") and o2[1] == op[1]) or (o2[0] == "rename" and o2[2] == op[1])
                        for o2 in sc[i + 1:]):
                # a file is renamed away and its old name is re-created on the same side: with a path-id peer the new object
                # takes over the old id/path slot, entries get crossed and the engine produces .conflicted copies or stale files
                if job.get("cfg") in ("po", "pci", "pp", "op", "plci"):
                    return "G12-rename-then-recreate-old-name-path-ids"
    if c["property"] == "C05" and kind == "resolver-handle-stale":
        # create/create conflict, first attempt punted with a cached download, that side is edited again and the edit is
        # taken in: the resolver is still handed the cached (older) bytes
        return "G13-resolver-handed-stale-cached-download"
    if c["property"] == "C12":
        allops = [op for _, op in ops]
        if kind == "outside-modified":
            # an object is moved out of the root on one side while the peer copy is edited/moved: the engine still
            # addresses the moved-out object by id and uploads/renames it outside the root
            return "G9-move-out-racing-peer-change-touches-outside"
        if any(op[0] == "rename" and op[1] == "/other/sub" and not op[2].startswith("/") for op in allops):
            # a non-empty folder moved into the root of an unfiltered id-style provider yields one event for the folder
            # only: its children are never discovered
            return "G8-folder-moved-in-children-not-discovered"
    if c["property"] in ("C07", "C10"):
        kinds = [op[0] for _, op in ops]
        paths = [op[1] for _, op in ops]
        if (kinds in (["write", "write"], ["create", "write"]) and paths[0] == paths[1]) or \
                (opts.get("unsynced_base") and kinds == ["write"]):
            # die right after the engine uploaded v1 (not yet recorded); the user writes v2 while it is down: after the
            # restart both sides differ from the recorded hash -> treated as a two-sided conflict -> .conflicted artefact
            return "G6-crash-after-upload-then-newer-edit"
        if kinds == ["write", "rename"] and paths[0] == paths[1]:
            # same instant, then the user renames the file: the equal-content conflict is merged by recording the
            # CURRENT paths of both sides as synced (manager.handle_split_conflict), which swallows the pending rename
            return "G7-equal-content-merge-swallows-rename"
    # folder renames present?
    folder_renames = [(s, op) for s, op in ops if op[0] == "rename" and op[1] in ("d", "e", "e/f")]
    for s, fr in folder_renames:
        for s2, op in ops:
            if op is fr:
                continue
            ps = [p for p in op[1:3] if isinstance(p, str)]
            if op[0] in ("create", "write"):
                ps = [op[1]]
            if any(_under(p, fr[1]) or p == fr[1] or _under(p, fr[2]) for p in ps):
                return "G1-folder-rename-vs-child"
    tg = {}
    for s, op in ops:
        for t in _targets(op):
            tg.setdefault(t, []).append((s, op))
    for t, lst in tg.items():
        if len(lst) >= 2:
            return "G2-same-target-name"
    if folder_renames:
        return "G1-folder-rename-vs-child"
    if job.get("cfg") in ("po", "pci", "pp", "op") and "S S S S S S" in " ".join(map(str, c.get("hist") or [])) and \
            any(op[0] in ("rename", "delete") for _, op in ops):
        # downstream of the same revive: six or more sync steps pass before the path-id side's rename/delete event is taken
        # in, the engine re-creates the vanished file, and the later operations of the history collide with the revived copy
        return "G3-missing-revive-origin-write"
    if kind == "origin-written" and job["cfg"] in ("po", "pci", "pp", "op"):
        # path-id side: change seen, object gone before sync, delete event not yet taken in -> after 5 punts the
        # engine re-creates the peer copy on the origin side (manager.handle_changed_is_missing)
        return "G3-missing-revive-origin-write"
    return None
