#!/bin/bash
# maintenance: run every check of a tier in list-findings mode, log timing (never registered in MANIFEST)
tier=${1:-thorough}
cd /verif
mkdir -p ${THORDIR:-/dev/shm/thor}
for p in ${2:-C01 C02 C03 C04 C05 C06 C07 C08 C09 C10 C11 C12 C13 C14 C15 C16 C17 C18 C19 C20}; do
  s=$(date +%s)
  ./check $p --tier $tier --list-findings > ${THORDIR:-/dev/shm/thor}/$p.$tier.log 2>&1
  echo "$p exit=$? wall=$(( $(date +%s) - s ))s $(tail -1 ${THORDIR:-/dev/shm/thor}/$p.$tier.log | cut -c1-220)" >> ${THORDIR:-/dev/shm/thor}/summary.$tier.txt
done
echo ALLDONE >> ${THORDIR:-/dev/shm/thor}/summary.$tier.txt
