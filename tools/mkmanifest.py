#!/venv/bin/python
"""Regenerate /verif/MANIFEST.json from the table below (keeps the manifest valid at all times)."""
import json
import os
import subprocess

HERE = os.path.dirname(os.path.dirname(os.path.abspath(__file__)))

TECH_E1 = "explicit-state model checking of the implementation: exhaustive schedule/history exploration of the real engine with canonical-state deduplication, replay and merge audit"
TECH_E2 = "explicit-state BFS over API call sequences of the real component, compared step by step with a reference model"
TECH_E3 = "stateless model checking of real threads under a controlled scheduler with preemption bounding"
TECH_E4 = "bounded exhaustive input enumeration checked against algebraic laws"

NOTE_E1 = ("Trusted: MockProvider as the provider, the harness determinisation layer (virtual clock, counter ids), the "
           "canonical-key abstraction (audited by one-step bisimulation on sampled merges). Bounded to short histories and "
           "small alphabets; genuine engine defects already present are listed one history at a time in known_findings.json.")

CHECKS = {
    # id: (engine, technique, level text, level note, design ref)
    "C01": ("seqx", TECH_E1,
            "Every interleaving of user operations, intake steps and sync steps of every history of <=2 user operations "
            "(27-op alphabet, one- and two-sided) is executed on the real CloudSync over MockProviders; at every quiet "
            "state both trees must be equal modulo .conflicted files, and the fair schedule must reach a quiet state from "
            "every reachable state; a state that no step changes any more but in which the engine still reports pending work counts "
            "as looping. Phased histories start the exploration from the end state of an earlier two-sided history; a mid-step family "
            "lets the user's operation land before the k-th provider call of the engine's own work (every k; first-ever start and "
            "steady state). This is a "
            "coverage statement over schedules that the wall-clock driven tests cannot give.",
            NOTE_E1, "5/C01"),
    "C02": ("seqx", TECH_E1,
            "All 1+1 two-sided histories over a collision alphabet (same-path create/create, edit/edit, edit/delete, "
            "file-vs-folder) in every interleaving, plus every placement of an unreadable (corrupt) version: at quiet states "
            "every version a user wrote and no user destroyed exists in some file, conflict losers are kept as .conflicted, "
            "a corrupt version never appears on the other side. A 'replace' family (one side removes or moves a file away and puts "
            "another object at its name while the other side edits, moves or deletes either file; id- and path-addressed flavours) "
            "is explored in every interleaving; a lost version is reported with the engine call site that removed its last copy.", NOTE_E1, "5/C02"),
    "C03": ("seqx", TECH_E1,
            "All one-sided histories (<=2 ops; 3 ops deviation-bounded in thorough) in both directions from three base trees, all "
            "143 three-operation chains on one object family, and folder histories on accounts that report folder deletions "
            "without ids, every interleaving: exact mirror at quiet state, no effective engine write on the origin side after any step, "
            "no mutating call in three further rounds.", NOTE_E1, "5/C03"),
    "C04": ("seqx", TECH_E1,
            "All ancestry-disjoint 1+1 pairs of operations from base B2 in every interleaving (2+1 deviation-bounded in "
            "thorough), plus 3-4 operation chains around a folder rename (edit child, rename folder, follow-up on the child at "
            "its new path, move it back) two rename cycles (files swapping names through a temporary name) three replace-by-rename chains and four chains that move a synced file into, out of or between folders and rename the folder straight afterwards, against an unrelated operation on the other side, explored with <=1 (2) deviations "
            "from three default schedules (prompt, lazy remote intake, lazy local intake): both quiet trees equal a reference "
            "three-way merge computed on a dict tree.", NOTE_E1, "5/C04"),
    "C05": ("seqx", TECH_E1,
            "Conflict shape x content pair x 10 resolver behaviours, both user operations first, then every interleaving of "
            "engine steps: outcome table of the statement, resolver call count and arguments, and a singleton terminal "
            "observation per job (schedule independence). 'Late edit' jobs (a side is edited again while the first attempt is "
            "unfinished) check on every resolver call that each handle yields the bytes that side holds (or held at its last "
            "intake), recording whether the engine's recorded hash was current. Accounts with different content-hash functions are "
            "included (equal bytes must still be recognised as equal).", NOTE_E1, "5/C05"),
    "C06": ("seqx", "exhaustive enumeration of stop points x restart modes on explored executions of the real engine",
            "For every step boundary of every base execution (prompt and users-first schedules of one-sided and disjoint "
            "histories on a DictStorage) the engine is dropped, the users finish their scripts while it is down, and a new engine "
            "is started over the same storage in three modes (intact, cursor removed, cursor rejected); after quiescence: "
            "convergence, no loss, no new artefact, no spurious transfer (intact) / every created or modified object present on "
            "both sides (cursor lost); case-only renames on case-insensitive flavours and first-ever starts (tree present before any engine ran), stops that land inside an intake step (before the k-th event of the batch) and a restart whose first provider call finds the connection dropped included; an engine that is quiet by state but still reports pending work counts as a failure. Judged only when the undisturbed run passes (differential gating).",
            NOTE_E1, "5/C06"),
    "C07": ("seqx", "exhaustive crash-point enumeration (every storage write, every engine provider write) on explored executions",
            "Within every base execution each storage create/update/delete is taken as a crash instant (die before it) and each "
            "effective engine provider write as a crash instant (die right after it); writes after death are refused; a new engine "
            "restarts over the storage and provider contents of that instant under three post-restart schedules (fair, sync loop "
            "first, remote events first), four provider flavours, including first-ever starts and objects moved across the root boundary under a schedule in which syncing lags behind intake (initial walk, first cursor and first "
            "rows inside the run): convergence, no loss, no artefact for one-sided histories, engine not left reporting pending work.", NOTE_E1 + " A crash is 'process disappears between two calls'; torn rows are SQLite's contract.", "5/C07"),
    "C10": ("seqx", "exhaustive fault-placement enumeration (every engine API call x 4 error kinds, before/after effect)",
            "Every provider API call the engine makes in a base execution is failed once with a temporary, disconnected, token or "
            "out-of-space error before its effect, every mutating call also right after its effect; plus permanent per-path "
            "failures lifted after 0..8 rounds; pairs of faults on the intake path (events() and one of the next six calls) faults "
            "during conflict resolution with an application resolver, faults during a first-ever start, and - for a brand-new pair (empty roots, first cursor values) and multi-event batches of an established pair - a fault before each further event of an intake batch. Afterwards the run must go quiet, converge without loss and have raised the "
            "matching notification.", NOTE_E1, "5/C10"),
    "C08": ("seqx+enumx", TECH_E1 + " with a persistence monitor; " + TECH_E4 + " for the codec",
            "After every engine transition of every interleaving of the C01 history list (storage attached) the stored rows "
            "must equal the live entries byte for byte, with no stale row and an empty dirty set, and a SyncState reloaded "
            "from a copy of the storage must have the same entries, pending set and id/path lookups; the per-tag data rows (cursor, walk marker) behave like one value per tag for every sequence of get/update/delete/forget by two states over one store up to depth 5 (6); intake batches cut short by a provider error after 1-2 events, and histories in which ONE storage write (the k-th, k<6/10) fails, are included. The codec is enumerated "
            "over every combination of hash shape, path, id, existence, ignore reason and stamp values, plus legacy rows.",
            NOTE_E1, "5/C08"),
    "C09": ("apix", TECH_E2,
            "Every call sequence up to depth 3 (4 thorough) over the storage API with three colliding tags (another tag, a case variant, a common prefix), colliding ids and close/reopen "
            "is run on SqliteStorage (file and :memory:) and the upstream MockStorage; after each call the full contents are "
            "compared with a dict. Concurrent use: 2-3 real threads with 1-2 operations each on colliding ids under a controlled "
            "scheduler (backend mutex replaced by a cooperative lock), every schedule within the preemption bound, brute-force "
            "linearizability against the dict.", "Trusted: the dict model; durability is close/reopen, not power loss. MockStorage is a "
            "test fixture: its two defects are listed as known findings.", "5/C09"),
    "C11": ("apix+seqx", TECH_E2 + "; invariant monitor on the engine exploration",
            "All sequences of raw state-level operations (events for both id styles, split, discard, conflict, finish, "
            "side-state move, field assignments) to depth 2 on the full and depth 3 on a reduced alphabet on a bare SyncState, from the "
            "empty state and (depth 2, full alphabet) from a non-initial state holding a synced pair with a pending remote change next to a "
            "local-only pending entry, "
            "plus the same index/pending-set invariants after every transition of an engine exploration - on the live state and, for a "
            "quarter of the jobs, on a SyncState rebuilt from a copy of the storage (what a restart would load); id take-over histories "
            "(a name freed and re-used by rename on path-id flavours) are part of the monitored list.",
            NOTE_E1, "5/C11"),
    "C12": ("seqx", TECH_E1 + " with a confinement monitor",
            "Accounts with content outside both roots (another folder, a prefix-sibling folder, a file at the account root); "
            "histories mixing inside operations, outside operations and moves across the boundary in every interleaving; after "
            "every engine step the outside snapshot of both accounts is unchanged, every engine create/mkdir/rename target lies "
            "inside its root on a component boundary, outside-only bytes never appear on the other side; inside trees converge; "
            "a custom translate declining 'skip*' names is honoured, and an object renamed to a declined name keeps its peer copy.", NOTE_E1, "5/C12"),
    "C14": ("seqx", "exhaustive enumeration of event-stream manglings on executions of the real engine, differential oracle",
            "For every history (<=2 ops, users first) and each side, every mangling of the first event delivery - every subset "
            "duplicated (adjacent and late), every permutation of <=4 events on id-stable sides, path fields dropped, id-less and "
            "unknown-id events injected, a full walk queued at three positions, per-event batching - must end in the same quiet "
            "trees as the unmangled run, without new artefacts or spurious transfers. Two-phase 'stale replay' histories: every "
            "non-empty subset of the events of an earlier, fully processed phase is delivered again (with and without the content "
            "hash it described) before or after the next batch, and every subset of the second phase's events arrives without its path.", NOTE_E1, "5/C14"),
    "C13": ("enumx", TECH_E4,
            "Every string up to length 5 (6 thorough) over an 8-symbol alphabet for the unary laws, all folder/relative-part "
            "pairs from strings up to length 3 (4) for subpath, prefix-sibling, replace and match laws (folder arguments also in the "
            "trailing-separator and alternate-separator spellings normalize_path_separators documents), four helper "
            "configurations, and the translate round trip for three case-mode pairs.",
            "Trusted: the law statements in vmc/props/c13.py; the random-long-path clause is not claimed.", "5/C13"),
    "C15": ("thrx+seqx", TECH_E3 + "; lock-ownership monitor on explored engine executions",
            "(a) Every call of a SyncState mutation entry point made while state.lock is not owned by the calling thread is "
            "recorded with its call site, over a deviation-bounded engine exploration and over every public entry point an "
            "application thread may call (a query action - change_count in every mode, busy - is enabled in every state of the "
            "exploration), and state.lock must stay the same object throughout; (b) the real CloudSync with its sync loop, two event loops and an application thread "
            "runs under a controlled scheduler with cooperative locks, every schedule with <=1 (2 thorough) preemptions, followed "
            "by the convergence and index-integrity oracles.",
            "Trusted: scheduling points at lock and wait operations are sufficient given (a); single attribute/dict operations "
            "are atomic under the GIL; MockProvider.", "5/C15"),
    "C16": ("apix", TECH_E2,
            "Every call sequence up to depth 3 (4 thorough) over create/mkdir/rename/upload/delete with "
            "colliding names and four size classes on four mock flavours and the filesystem provider (plus depth 5/6 on a narrow "
            "alphabet with two >2 KiB contents differing only in the middle; hash-cache contents are part of the state), compared after every "
            "call with a reference tree: result class, info/exists/listdir/download agreement, id stability, hash law, event "
            "report; plus identity-on-connect (also as a re-login on a connected provider), single-use guard and watchdog event conversion.",
            "Trusted: the reference tree in vmc/props/c16.py (contract as documented by test_provider.py); asynchronous inotify "
            "delivery and networked providers are out of reach offline.", "5/C16"),
    "C17": ("seqx", TECH_E1 + " with explicit time-advance actions (depth-bounded)",
            "Under a virtual clock that moves only through explicit tick actions and the engine's own sleeps, every order of user "
            "operation, intake step, sync step and ticks up to depth 7 (9 thorough) is executed for two ageing values and five "
            "prioritise functions; at every pick the entry handed to the sync routine must be eligible and minimal by (priority, "
            "age), a negative priority must be justified by prioritize() of a path the entry has now, and every engine write must "
            "come at least the ageing interval after the last notification for that object unless its priority is negative; plus every "
            "order of 3-4 notifications for entries pending on both sides, a starvation scenario, and engines built with every ordered pair of poll intervals from {0.5,5,10,15}s whose derived ageing must be max/5 and must be honoured on either side.", NOTE_E1, "5/C17"),
    "C20": ("seqx", TECH_E1,
            "SmartCloudSync with application calls (request, un-request, list) as explorer actions next to user operations and "
            "engine steps, every interleaving, with one, two or three registered auto-sync predicates: no local file that is not local-origin, requested or predicate-matched after any "
            "action; listing flags; at quiet states folders mirrored, local creations uploaded, requested files byte-equal, "
            "un-request keeps the remote copy with the newest bytes, also when the upload of the pending edit hits a transient error, and pushes a pending local rename (un-request by old or new name).", NOTE_E1, "5/C20"),
    "C18": ("thrx+enumx", TECH_E3 + " (line-level scheduling points in runnable.py/notification.py); " + TECH_E4 + " for the backoff law",
            "Six stop/start/wake scenarios, two notification scenarios and two long-poll scenarios run on real threads with a "
            "scheduling point at every source line of runnable.py and every Event/Thread/Queue operation, all schedules with <=2 "
            "(3 thorough) preemptions: no work call after stop() returned, cleanup exactly once for a final stop, restart refused, "
            "no deadlock, no exception in any thread, FIFO exactly-once notifications surviving a raising handler. The backoff "
            "law is checked on every outcome sequence up to length 5 (6) for five parameter triples under a virtual clock, and on "
            "LongPollManager for every sequence of long_poll outcomes (events / none / raises / raises after the timeout).",
            "Trusted: the shims for threading/queue/time; line granularity (GIL-atomic attribute access).", "5/C18"),
    "C19": ("apix", TECH_E2,
            "Every call sequence up to depth 3 (4 in thorough) over the cache API on colliding paths (three levels) and ids, for both case "
            "modes, from the empty cache and from a populated one, is executed on the real HierarchicalCache; structural invariants (acyclic, parent links, id map == reachable "
            "id-bearing nodes, inverse views) and a one-step refinement check against a fact model after every call.",
            "Trusted: the fact model (what the cache may still claim) in vmc/props/c19.py; bounded depth and alphabet.",
            "5/C19"),
}

PENDING = ["C02", "C03", "C04", "C05", "C06", "C07", "C08", "C09", "C10", "C11", "C12", "C13", "C14", "C15", "C16",
           "C17", "C18", "C19", "C20"]


def main():
    src = []
    try:
        out = subprocess.run(["git", "-C", "/repo", "log", "--format=%H %s"], capture_output=True, text=True).stdout
        for ln in out.splitlines():
            h, _, msg = ln.partition(" ")
            if msg.startswith("verif-hook:"):
                src.append(h)
    except Exception:
        pass
    m = {
        "version": 1,
        "setup_cmd": "mkdir -p /verif/evidence /verif/replays && /venv/bin/python -c \"import sys; sys.path.insert(0,'/repo'); import cloudsync, msgpack, xxhash; assert cloudsync.__file__.startswith('/repo/')\"",
        "hooks": {
            "guard": "CLOUDSYNC_VERIF",
            "enable": "no in-source hooks: the harness instruments the imported /repo tree at import time "
                      "(attribute replacement in vmc/env.py); CLOUDSYNC_VERIF=1 is exported for information only",
            "baseline_off_cmd": "cd /repo && /venv/bin/python -m pytest -ra -q -p no:cacheprovider --timeout=900 "
                                "--continue-on-collection-errors",
            "source_commits": src,
            "add_only": True,
        },
        "engines": [
            {"name": "seqx", "path": "vmc/seqx.py", "serves_properties": [],
             "kind_free_text": "explicit-state DFS with replay over the real sync engine (user ops / intake L,R / sync step), canonical key, deviation bounding, merge audit"},
            {"name": "apix", "path": "vmc/apix.py", "serves_properties": [],
             "kind_free_text": "BFS over API call sequences of one component against a reference model"},
            {"name": "thrx", "path": "vmc/thrx.py", "serves_properties": [],
             "kind_free_text": "controlled scheduler for real threads (baton passing, line-level preemption points), preemption-bounded stateless DFS"},
            {"name": "enumx", "path": "vmc/enumx.py", "serves_properties": [],
             "kind_free_text": "bounded exhaustive input enumeration"},
        ],
        "checks": [],
        "not_applicable": [],
        "notes": "All checks explore the real implementation imported from /repo's working tree; see DESIGN.md.",
    }
    for pid in sorted(CHECKS):
        eng, tech, text, note, ref = CHECKS[pid]
        for e in m["engines"]:
            if e["name"] in eng.split("+"):
                e["serves_properties"].append(pid)
        m["checks"].append({
            "property_id": pid,
            "quick_cmd": "./check %s --tier quick" % pid,
            "thorough_cmd": "./check %s --tier thorough" % pid,
            "evidence_file": "/verif/evidence/%s.json" % pid,
            "replay_cmd_template": "./check %s --replay {path}" % pid,
            "engine": eng,
            "level_claimed": {"category": "model_checking", "text": text, "design_ref": ref},
            "level_note": note,
            "technique": tech,
        })
    for pid in PENDING:
        if pid not in CHECKS:
            m["not_applicable"].append({"property_id": pid,
                                        "reason": "check not built yet in this session (model checking applies; see DESIGN.md build order)"})
    with open(os.path.join(HERE, "MANIFEST.json"), "w") as f:
        json.dump(m, f, indent=1)
        f.write("\n")
    import jsonschema
    jsonschema.validate(m, json.load(open("/root/.vp/MANIFEST.schema.json")))
    print("MANIFEST ok: %d checks, %d pending" % (len(m["checks"]), len(m["not_applicable"])))


if __name__ == "__main__":
    main()
