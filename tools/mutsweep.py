#!/venv/bin/python
"""
Maintenance tool (never run by a registered check): systematic mutation sweep used to look for blind spots.

  tools/mutsweep.py gen  <outdir> [--per-file N] [--seed S]      # write mutant patches (one small edit each)
  tools/mutsweep.py test <outdir> [--jobs J]                      # which mutants keep the existing suite green?
  tools/mutsweep.py run  <outdir> [--only id,id]                  # run the quick checks against the survivors
  tools/mutsweep.py table <outdir>

Every mutant lives in its own scratch copy of the repository under /dev/shm (removed afterwards); /repo is never touched.
Operators: negate an if/while/elif test, drop a simple statement (call / attribute assignment / augmented assignment),
swap a comparison operator, and<->or, swap LOCAL/REMOTE or changed/synced inside one expression, True<->False, drop a `not`.
"""
import ast
import json
import os
import random
import shutil
import subprocess
import sys
import time

VERIF = os.path.dirname(os.path.dirname(os.path.abspath(__file__)))
REPO = "/repo"
HEAD = subprocess.run("git -C /repo rev-parse --short HEAD", shell=True, capture_output=True, text=True).stdout.strip()
FILES = {
    "cloudsync/sync/manager.py": ["C03", "C01", "C10", "C14", "C06", "C07", "C02", "C04", "C05", "C12", "C08", "C11", "C15", "C17", "C20"],
    "cloudsync/sync/state.py": ["C03", "C01", "C11", "C08", "C10", "C14", "C06", "C07", "C02", "C04", "C05", "C17", "C12", "C15", "C20"],
    "cloudsync/event.py": ["C03", "C01", "C06", "C07", "C10", "C14", "C12", "C08", "C15"],
    "cloudsync/cs.py": ["C03", "C01", "C12", "C13", "C06", "C15", "C17", "C20"],
    "cloudsync/smartsync.py": ["C20", "C15"],
    "cloudsync/runnable.py": ["C18", "C17", "C10", "C03"],
    "cloudsync/notification.py": ["C18", "C10"],
    "cloudsync/hierarchical_cache.py": ["C19"],
    "cloudsync/provider.py": ["C13", "C16", "C12", "C03"],
    "cloudsync/providers/mock.py": ["C16", "C03", "C01"],
    "cloudsync/sync/sqlite_storage.py": ["C09", "C08", "C06"],
    "cloudsync/providers/filesystem.py": ["C16"],
}
SKIP_FUNCS = {"pretty", "pretty_print", "pretty_headers", "pretty_format", "pretty_summary", "__repr__", "__str__", "debug_sig"}
CMP = {ast.Eq: "!=", ast.NotEq: "==", ast.Lt: "<=", ast.LtE: "<", ast.Gt: ">=", ast.GtE: ">", ast.Is: "is not", ast.IsNot: "is",
       ast.In: "not in", ast.NotIn: "in"}
SWAPS = [("LOCAL", "REMOTE"), ("changed", "synced"), ("sync_path", "path"), ("sync_hash", "hash")]


def sh(cmd, cwd=None, timeout=3600, env=None):
    p = subprocess.run(cmd, shell=True, cwd=cwd, capture_output=True, text=True, timeout=timeout, env=env)
    return p.returncode, (p.stdout + p.stderr)


class Src:
    def __init__(self, text):
        self.text = text
        self.lines = text.split("\n")
        self.off = [0]
        for ln in self.lines:
            self.off.append(self.off[-1] + len(ln) + 1)

    def pos(self, lineno, col):
        # ast columns are utf8 byte offsets
        line = self.lines[lineno - 1]
        return self.off[lineno - 1] + len(line.encode("utf8")[:col].decode("utf8"))

    def seg(self, node):
        return self.pos(node.lineno, node.col_offset), self.pos(node.end_lineno, node.end_col_offset)


def is_log(node):
    """statement that only logs / asserts"""
    if isinstance(node, ast.Expr) and isinstance(node.value, ast.Call):
        f = node.value.func
        if isinstance(f, ast.Attribute) and isinstance(f.value, ast.Name) and f.value.id in ("log", "logging"):
            return True
    return False


def candidates(path, text):
    src = Src(text)
    tree = ast.parse(text)
    out = []
    func_stack = []

    def visit(node):
        name = getattr(node, "name", None)
        pushed = False
        if isinstance(node, (ast.FunctionDef, ast.AsyncFunctionDef)):
            if node.name in SKIP_FUNCS:
                return
            func_stack.append(node.name)
            pushed = True
        fn = func_stack[-1] if func_stack else "<module>"
        if func_stack:
            if isinstance(node, (ast.If, ast.While)):
                a, b = src.seg(node.test)
                out.append(("negate-test", fn, node.lineno, a, b, "not (" + text[a:b] + ")"))
            if isinstance(node, ast.Compare) and len(node.ops) == 1 and type(node.ops[0]) in CMP:
                a0 = src.seg(node.left)[1]
                b0 = src.seg(node.comparators[0])[0]
                mid = text[a0:b0]
                tok = {ast.Eq: "==", ast.NotEq: "!=", ast.Lt: "<", ast.LtE: "<=", ast.Gt: ">", ast.GtE: ">=", ast.Is: "is",
                       ast.IsNot: "is not", ast.In: "in", ast.NotIn: "not in"}[type(node.ops[0])]
                import re
                m = re.search(r"(?<![=!<>])" + re.escape(tok).replace(r"\ ", r"\s+") + r"(?![=])", mid)
                if m:
                    out.append(("swap-cmp", fn, node.lineno, a0 + m.start(), a0 + m.end(), CMP[type(node.ops[0])]))
            if isinstance(node, ast.BoolOp) and len(node.values) == 2:
                a0 = src.seg(node.values[0])[1]
                b0 = src.seg(node.values[1])[0]
                mid = text[a0:b0]
                tok = "and" if isinstance(node.op, ast.And) else "or"
                import re
                m = re.search(r"\b%s\b" % tok, mid)
                if m:
                    out.append(("and-or", fn, node.lineno, a0 + m.start(), a0 + m.end(), "or" if tok == "and" else "and"))
            if isinstance(node, ast.UnaryOp) and isinstance(node.op, ast.Not):
                a, b = src.seg(node)
                oa, ob = src.seg(node.operand)
                out.append(("drop-not", fn, node.lineno, a, b, text[oa:ob]))
            if isinstance(node, ast.Constant) and node.value is True:
                a, b = src.seg(node)
                out.append(("true-false", fn, node.lineno, a, b, "False"))
            if isinstance(node, ast.Constant) and node.value is False:
                a, b = src.seg(node)
                out.append(("true-false", fn, node.lineno, a, b, "True"))
            if isinstance(node, (ast.Expr, ast.Assign, ast.AugAssign)) and not is_log(node) and node.lineno == node.end_lineno:
                ok = False
                if isinstance(node, ast.Expr) and isinstance(node.value, ast.Call):
                    ok = True
                if isinstance(node, ast.Assign) and any(isinstance(t, (ast.Attribute, ast.Subscript)) for t in node.targets):
                    ok = True
                if isinstance(node, ast.AugAssign):
                    ok = True
                if ok:
                    a, b = src.seg(node)
                    out.append(("drop-stmt", fn, node.lineno, a, b, "pass"))
            if (isinstance(node, (ast.Expr, ast.Assign, ast.Return, ast.If)) and node.lineno == getattr(node, "end_lineno", -1)
                    or isinstance(node, ast.Compare)) and not is_log(node):
                a, b = src.seg(node)
                seg = text[a:b]
                import re
                for x, y in SWAPS:
                    for (p, q) in ((x, y), (y, x)):
                        ms = list(re.finditer(r"(?<![\w.])%s\b|(?<=\.)%s\b(?!\()" % (p, p) if p in ("LOCAL", "REMOTE", "changed", "synced")
                                              else r"(?<=\.)%s\b(?!\()" % p, seg))
                        if len(ms) >= 1 and len(seg) < 200:
                            m = ms[0]
                            out.append(("swap-name:%s>%s" % (p, q), fn, node.lineno, a + m.start(), a + m.end(), q))
        for ch in ast.iter_child_nodes(node):
            visit(ch)
        if pushed:
            func_stack.pop()
    visit(tree)
    # dedupe on (a, b, repl)
    seen = set()
    res = []
    for c in out:
        k = (c[3], c[4], c[5])
        if k in seen:
            continue
        seen.add(k)
        res.append(c)
    return res


def gen(outdir, per_file, seed):
    os.makedirs(outdir, exist_ok=True)
    rnd = random.Random(seed)
    index = []
    for rel in FILES:
        text = open(os.path.join(REPO, rel)).read()
        cands = candidates(rel, text)
        rnd.shuffle(cands)
        n = per_file.get(rel, per_file.get("*", 10))
        picked = 0
        for (op, fn, lineno, a, b, repl) in cands:
            if picked >= n:
                break
            new = text[:a] + repl + text[b:]
            try:
                compile(new, rel, "exec")
            except SyntaxError:
                continue
            mid = "m%03d" % len(index)
            d = os.path.join(outdir, mid)
            os.makedirs(d, exist_ok=True)
            open(os.path.join(d, "mutated.py"), "w").write(new)
            index.append({"id": mid, "base_commit": HEAD, "file": rel, "op": op, "func": fn, "line": lineno, "old": text[a:b][:120], "new": repl[:140],
                          "context": text.split("\n")[lineno - 1].strip()[:160]})
            picked += 1
    json.dump(index, open(os.path.join(outdir, "index.json"), "w"), indent=1)
    print("generated", len(index), "mutants")


def scratch(outdir, m):
    d = "/dev/shm/mut-%s-%s" % (os.path.basename(outdir.rstrip("/")), m["id"])
    if os.path.exists(d):
        shutil.rmtree(d)
    sh("git -C %s worktree remove --force %s" % (REPO, d))
    rc, out = sh("git -C %s worktree add -q --detach %s HEAD" % (REPO, d))
    assert rc == 0, out
    base = m.get("base_commit")
    if base:
        # the mutant was generated against an older commit: carry the one-hunk edit over to the current HEAD
        orig = subprocess.run("git -C %s show %s:%s" % (REPO, base, m["file"]), shell=True, capture_output=True, text=True).stdout
        of = os.path.join(outdir, m["id"], "orig.py")
        open(of, "w").write(orig)
        rc, out = sh("diff -u %s %s > %s/m.patch; patch -s %s < %s/m.patch" % (
            of, os.path.join(outdir, m["id"], "mutated.py"), os.path.join(outdir, m["id"]), os.path.join(d, m["file"]),
            os.path.join(outdir, m["id"])))
        assert rc == 0, out
    else:
        shutil.copy(os.path.join(outdir, m["id"], "mutated.py"), os.path.join(d, m["file"]))
    return d


def unscratch(d):
    sh("git -C %s worktree remove --force %s" % (REPO, d))
    if os.path.exists(d):
        shutil.rmtree(d, ignore_errors=True)


# tests that bind fixed ports (clash when several suites run side by side) or fail on the unchanged tree (network)
DESELECT = ["cloudsync/tests/test_oauth.py", "cloudsync/tests/test_oauth_redir_server.py", "cloudsync/tests/test_cmd_sync.py",
            "cloudsync/tests/test_box.py"]


def test_one(arg):
    outdir, m = arg
    d = scratch(outdir, m)
    t0 = time.time()
    try:
        jx = os.path.join(outdir, m["id"], "junit.xml")
        ign = " ".join("--ignore=%s" % x for x in DESELECT)
        rc, out = sh("/venv/bin/python -m pytest -x -q -p no:cacheprovider --timeout=600 --continue-on-collection-errors %s "
                     "--junitxml=%s" % (ign, jx), cwd=d, timeout=2400)
        # with -x the run stops at the first failing test; failing tests that fail on the clean tree too would stop it early,
        # so compare against the list of tests that pass on the clean tree
        failed = []
        try:
            import xml.etree.ElementTree as ET
            for tc in ET.parse(jx).getroot().iter("testcase"):
                if tc.find("failure") is not None or tc.find("error") is not None:
                    failed.append("%s::%s" % (tc.get("classname"), tc.get("name")))
        except Exception as e:
            failed.append("junit-unreadable:%r" % e)
        return m["id"], {"rc": rc, "failed": failed, "wall": round(time.time() - t0, 1), "tail": out[-300:]}
    finally:
        unscratch(d)


def load_passing():
    p = os.path.join(VERIF, "tools", "passing_tests.txt")
    if os.path.exists(p):
        return set(x.strip() for x in open(p) if x.strip())
    return None


def test(outdir, jobs):
    import multiprocessing as mp
    index = json.load(open(os.path.join(outdir, "index.json")))
    resf = os.path.join(outdir, "tests.json")
    res = json.load(open(resf)) if os.path.exists(resf) else {}
    todo = [(outdir, m) for m in index if m["id"] not in res]
    with mp.Pool(jobs) as pool:
        for mid, r in pool.imap_unordered(test_one, todo):
            res[mid] = r
            json.dump(res, open(resf, "w"), indent=0)
            print(mid, r["rc"], r["wall"], r["failed"][:2], flush=True)


def survivors(outdir):
    index = json.load(open(os.path.join(outdir, "index.json")))
    res = json.load(open(os.path.join(outdir, "tests.json")))
    passing = load_passing()
    out = []
    for m in index:
        r = res.get(m["id"])
        if not r:
            continue
        bad = [f for f in r["failed"] if passing is None or f in passing or f.startswith("junit")]
        if not bad and r["rc"] in (0, 1):
            # rc 1 with only always-failing tests failing: -x may have stopped early -> needs the full run
            out.append((m, r))
    return out


def run(outdir, only=None):
    resf = os.path.join(outdir, "checks.json")
    res = json.load(open(resf)) if os.path.exists(resf) else {}
    for m, r in survivors(outdir):
        if only and m["id"] not in only:
            continue
        if m["id"] in res and not only:
            continue
        d = scratch(outdir, m)
        verdicts = {}
        try:
            for c in FILES[m["file"]]:
                t0 = time.time()
                rc, out = sh("VMC_REPO=%s VMC_EVIDENCE_DIR=/dev/shm/mut-evidence VMC_REPLAY_DIR=/dev/shm/mut-replays ./check %s"
                             % (d, c), cwd=VERIF, timeout=3600)
                first = next((ln for ln in out.splitlines() if ln.startswith("  kind=")), "")
                verdicts[c] = {"exit": rc, "wall": round(time.time() - t0, 1), "first": first[:200]}
                if rc != 0:
                    break
        finally:
            unscratch(d)
        res[m["id"]] = verdicts
        json.dump(res, open(resf, "w"), indent=0)
        det = [c for c, v in verdicts.items() if v["exit"] == 1]
        print(m["id"], m["file"], m["func"], m["op"], "DETECTED by %s" % det if det else
              ("harness-exit %s" % {c: v["exit"] for c, v in verdicts.items() if v["exit"] not in (0, 1)} if any(
                  v["exit"] not in (0, 1) for v in verdicts.values()) else "UNDETECTED"), flush=True)


def table(outdir):
    index = {m["id"]: m for m in json.load(open(os.path.join(outdir, "index.json")))}
    tests = json.load(open(os.path.join(outdir, "tests.json")))
    checks = json.load(open(os.path.join(outdir, "checks.json"))) if os.path.exists(os.path.join(outdir, "checks.json")) else {}
    surv = {m["id"] for m, _ in survivors(outdir)}
    print("mutants", len(index), "tested", len(tests), "survive the suite", len(surv), "checked", len(checks))
    for mid in sorted(surv):
        m = index[mid]
        v = checks.get(mid)
        det = [c for c, x in (v or {}).items() if x["exit"] == 1]
        st = "not run" if v is None else ("DETECTED " + ",".join(det) if det else "UNDETECTED")
        print("%s %-34s %-28s L%-5d %-22s %s | %s -> %s" % (mid, m["file"][10:], m["func"][:28], m["line"], m["op"][:22], st,
                                                           m["old"][:50].replace("\n", " "), m["new"][:50].replace("\n", " ")))


if __name__ == "__main__":
    cmd, outdir = sys.argv[1], sys.argv[2]
    args = sys.argv[3:]

    def opt(name, default):
        return args[args.index(name) + 1] if name in args else default
    if cmd == "gen":
        n = int(opt("--per-file", "10"))
        per = {"*": n, "cloudsync/sync/manager.py": n * 5, "cloudsync/sync/state.py": n * 3, "cloudsync/event.py": n * 2,
               "cloudsync/providers/filesystem.py": max(2, n // 2), "cloudsync/notification.py": max(2, n // 2)}
        gen(outdir, per, int(opt("--seed", "1")))
    elif cmd == "test":
        test(outdir, int(opt("--jobs", "6")))
    elif cmd == "run":
        o = opt("--only", None)
        run(outdir, set(o.split(",")) if o else None)
    elif cmd == "table":
        table(outdir)
