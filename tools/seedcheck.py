#!/venv/bin/python
"""
Maintenance tool: confirm a seeded defect and run checks against it.
  tools/seedcheck.py verify <name> <srcdir>          # srcdir has patch.diff, demo.py, meta.json (from a sub-agent)
        -> fresh scratch worktree: demo passes without / fails with the patch, baseline tests still pass with it;
           on success copies the three files to /verif/seeded/<name>/
  tools/seedcheck.py run <name> [checks...] [--tier quick]
        -> applies /verif/seeded/<name>/patch.diff to /repo, runs the checks, reverts, records the verdicts in meta.json
"""
import json
import os
import shutil
import subprocess
import sys
import time

VERIF = os.path.dirname(os.path.dirname(os.path.abspath(__file__)))
SEEDED = os.path.join(VERIF, "seeded")
ALL = ["C%02d" % i for i in range(1, 21)]


def sh(cmd, cwd=None, timeout=3600):
    p = subprocess.run(cmd, shell=True, cwd=cwd, capture_output=True, text=True, timeout=timeout)
    return p.returncode, (p.stdout + p.stderr)


def verify(name, src, run_tests=True):
    wt = "/tmp/vw-%s" % name
    sh("git -C /repo worktree remove --force %s" % wt)
    rc, out = sh("git -C /repo worktree add -q --detach %s HEAD" % wt)
    assert rc == 0, out
    res = {}
    try:
        demo = os.path.join(src, "demo.py")
        rc0, out0 = sh("/venv/bin/python %s" % demo, cwd=wt, timeout=600)
        res["demo_without_patch_exit"] = rc0
        rc, out = sh("git apply %s" % os.path.join(src, "patch.diff"), cwd=wt)
        res["patch_applies"] = rc == 0
        if rc != 0:
            res["apply_error"] = out[-400:]
            return res
        rc1, out1 = sh("/venv/bin/python %s" % demo, cwd=wt, timeout=600)
        res["demo_with_patch_exit"] = rc1
        res["demo_with_patch_tail"] = out1[-300:]
        if run_tests:
            jx = "/tmp/vw-%s.xml" % name
            sh("/venv/bin/python -m pytest -q -p no:cacheprovider --timeout=900 --continue-on-collection-errors "
               "--junitxml=%s" % jx, cwd=wt, timeout=3000)
            rc, out = sh("/venv/bin/python %s %s" % (os.path.join(VERIF, "tools", "cmpbase.py"), jx))
            res["baseline_150_still_pass"] = rc == 0
            rc2, out2 = sh("/tmp/seed/cmp_tests.py %s" % jx) if os.path.exists("/tmp/seed/cmp_tests.py") else (0, "")
            res["all_previously_passing_still_pass"] = rc2 == 0
            res["tests_tail"] = (out + out2)[-300:]
            os.unlink(jx) if os.path.exists(jx) else None
        res["confirmed"] = bool(rc0 == 0 and rc1 != 0 and res.get("baseline_150_still_pass", True))
    finally:
        sh("git -C /repo worktree remove --force %s" % wt)
    if res.get("confirmed"):
        dst = os.path.join(SEEDED, name)
        os.makedirs(dst, exist_ok=True)
        for f in ("patch.diff", "demo.py"):
            shutil.copy(os.path.join(src, f), os.path.join(dst, f))
        meta = {}
        try:
            meta = json.load(open(os.path.join(src, "meta.json")))
        except Exception:
            pass
        meta["verified"] = res
        json.dump(meta, open(os.path.join(dst, "meta.json"), "w"), indent=1)
    return res


def run(name, checks, tier):
    """runs the checks against a scratch worktree carrying the patch (VMC_REPO), so /repo itself is never touched
    while other runs may be importing it; equivalent to `git -C /repo apply` + run + `git -C /repo checkout -- .`"""
    d = os.path.join(SEEDED, name)
    patch = os.path.join(d, "patch.diff")
    wt = "/tmp/sw-%s" % name
    sh("git -C /repo worktree remove --force %s" % wt)
    rc, out = sh("git -C /repo worktree add -q --detach %s HEAD" % wt)
    assert rc == 0, out
    rc, out = sh("git apply %s" % patch, cwd=wt)
    assert rc == 0, out
    verdicts = {}
    try:
        for c in checks:
            t0 = time.time()
            rc, out = sh("VMC_REPO=%s VMC_EVIDENCE_DIR=/tmp/sw-evidence VMC_REPLAY_DIR=/tmp/sw-replays ./check %s --tier %s" % (wt, c, tier),
                         cwd=VERIF, timeout=7200)
            nv = sum(1 for ln in out.splitlines() if ln.startswith("VIOLATION"))
            first = next((ln for ln in out.splitlines() if ln.startswith("  kind=")), "")
            verdicts[c] = {"exit": rc, "violations": nv, "wall_s": round(time.time() - t0, 1), "first": first[:300]}
            print(name, c, verdicts[c], flush=True)
    finally:
        sh("git -C /repo worktree remove --force %s" % wt)
    meta = json.load(open(os.path.join(d, "meta.json")))
    meta.setdefault("checks_run", {}).setdefault(tier, {}).update(verdicts)
    meta["detected_by"] = sorted({c for t in meta["checks_run"].values() for c, v in t.items() if v["exit"] == 1})
    json.dump(meta, open(os.path.join(d, "meta.json"), "w"), indent=1)
    return verdicts


if __name__ == "__main__":
    cmd = sys.argv[1]
    if cmd == "verify":
        r = verify(sys.argv[2], sys.argv[3], run_tests="--no-tests" not in sys.argv)
        print(json.dumps(r, indent=1))
    elif cmd == "run":
        tier = "quick"
        args = sys.argv[3:]
        if "--tier" in args:
            i = args.index("--tier")
            tier = args[i + 1]
            args = args[:i] + args[i + 2:]
        run(sys.argv[2], args or ALL, tier)
