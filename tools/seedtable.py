#!/venv/bin/python
"""print a markdown table of /verif/seeded/*/meta.json (for DESIGN.md section 13)"""
import glob, json, os
rows = []
for d in sorted(glob.glob(os.path.join(os.path.dirname(os.path.dirname(os.path.abspath(__file__))), "seeded", "*"))):
    m = json.load(open(os.path.join(d, "meta.json")))
    runs = m.get("checks_run", {})
    det = []
    for tier, r in runs.items():
        for c, v in sorted(r.items()):
            det.append("%s:%s" % (c, "DETECTED" if v["exit"] == 1 else ("harness-error" if v["exit"] == 2 else "silent")))
    rows.append("| %s | %s | %s | %s | %s |" % (os.path.basename(d), m.get("property"), (m.get("summary") or "")[:160].replace("|", "/").replace("\n", " "),
                                           (m.get("needs") or "")[:160].replace("|", "/").replace("\n", " "), ", ".join(sorted(set(det)))))
print("| seed | breaks | change | needs | verdicts (quick tier) |\n|---|---|---|---|---|")
print("\n".join(rows))
