#!/venv/bin/python
"""
Maintenance tool (never run by a registered check): merge reviewed candidate findings
(/verif/findings_candidates/*.json, written by `./check Cxx --list-findings`) into
/verif/known_findings.json, tagging each with a root-cause group decided by classify().
Usage: tools/triage.py [--dry]
"""
import glob
import json
import os
import sys

HERE = os.path.dirname(os.path.dirname(os.path.abspath(__file__)))
sys.path.insert(0, HERE)
from tools.groups import classify   # noqa: E402


def main():
    dry = "--dry" in sys.argv
    path = os.path.join(HERE, "known_findings.json")
    try:
        known = json.load(open(path))
    except FileNotFoundError:
        known = {"findings": [], "fixed": []}
    have = {(e["property"], e["job"], e["kind"], e["sig"]) for e in known["findings"]}
    added = {}
    for f in sorted(glob.glob(os.path.join(HERE, "findings_candidates", "*.json"))):
        for c in json.load(open(f)):
            key = (c["property"], c["job"], c["kind"], c["sig"])
            if key in have:
                continue
            g = classify(c)
            if g is None:
                print("UNCLASSIFIED (not added):", c["property"], c["kind"], c["job"][:200])
                continue
            have.add(key)
            known["findings"].append({"property": c["property"], "job": c["job"], "kind": c["kind"], "sig": c["sig"],
                                      "group": g, "hist": " ".join(map(str, c.get("hist") or []))})
            added[g] = added.get(g, 0) + 1
    print("added", added)
    if not dry:
        known["findings"].sort(key=lambda e: (e["property"], e["group"], e["job"], e["kind"], e["sig"]))
        with open(path, "w") as f:
            json.dump(known, f, indent=0)
            f.write("\n")


if __name__ == "__main__":
    main()
