"""User-operation alphabets (DESIGN section 4) and history generators. Contents are made unique per job."""
import itertools

U13 = [
    ["create", "c"], ["create", "d/c"], ["write", "a"], ["write", "d/b"], ["delete", "a"], ["delete", "d/b"],
    ["rename", "a", "c"], ["rename", "a", "d/a"], ["rename", "d/b", "b"], ["rename", "d", "e"],
    ["mkdir", "e"], ["mkdir", "d/e"], ["delete", "d"],
]
UCONF = [
    ["write", "a"], ["delete", "a"], ["rename", "a", "c"], ["rename", "a", "d/a"], ["create", "c"],
    ["mkdir", "c"], ["create", "d/a"], ["delete", "d"], ["rename", "d", "c"], ["create", "a"],
]


def union(*alphs):
    out = []
    for a in alphs:
        for op in a:
            if op not in out:
                out.append(op)
    return out


UALL = union(U13, UCONF)
# follow-up operations on objects a first operation created or moved (valid only as a second step)
UFOLLOW = [
    ["rename", "c", "a"], ["write", "c"], ["delete", "c"], ["rename", "e", "d"], ["delete", "e"],
    ["rename", "d/a", "a"], ["write", "d/a"], ["rename", "b", "d/b"], ["create", "d/b"], ["rename", "c", "d/c"],
]
UEXT = union(UALL, UFOLLOW)


def valid_histories(base_ops, alpha, maxlen):
    """one-sided sequences (length 1..maxlen) in which every operation succeeds on the reference tree"""
    from .models import base_tree, valid_seq
    base = base_tree(base_ops)
    out = []
    for n in range(1, maxlen + 1):
        for sq in seqs(alpha, n):
            if valid_seq(base, sq):
                out.append(sq)
    return out


def stamp(scripts):
    """give every create/write unique bytes: L1,L2.. / R1,R2.."""
    out = []
    for side, sc in enumerate(scripts):
        n = 0
        ss = []
        for op in sc:
            op = list(op)
            if op[0] in ("create", "write") and len(op) == 2:
                n += 1
                op.append("%s%d" % ("LR"[side], n))
            ss.append(op)
        out.append(ss)
    return out


def seqs(alpha, n):
    """all sequences of exactly n ops"""
    return [list(x) for x in itertools.product(alpha, repeat=n)]


def one_sided(alpha, maxlen):
    for n in range(1, maxlen + 1):
        for sq in seqs(alpha, n):
            yield [sq, []]
            yield [[], sq]


def cross(alpha_l, alpha_r, nl, nr):
    for a in seqs(alpha_l, nl):
        for b in seqs(alpha_r, nr):
            yield [a, b]


def paths_of(op):
    if op[0] == "rename":
        return [op[1], op[2]]
    return [op[1]]


def related(p, q):
    """equal, above or below (component-wise)"""
    a, b = p.split("/"), q.split("/")
    n = min(len(a), len(b))
    return a[:n] == b[:n]


def disjoint(sl, sr):
    pl = [p for op in sl for p in paths_of(op)]
    pr = [p for op in sr for p in paths_of(op)]
    return not any(related(p, q) for p in pl for q in pr)


def related_chain(seq):
    """every operation after the first names a path equal to, above or below a path named earlier (same object family)"""
    seen = list(paths_of(seq[0]))
    for op in seq[1:]:
        ps = paths_of(op)
        if not any(related(p, q) for p in ps for q in seen):
            return False
        seen.extend(ps)
    return True


ORDERS = {"prompt": None, "lazy-remote-intake": ["IL", "S", "UL", "UR", "IR"], "lazy-local-intake": ["IR", "S", "UL", "UR", "IL"],
          "sync-last": ["IL", "IR", "UL", "UR", "S"], "users-first": ["UL", "UR", "IL", "IR", "S"]}


def mirror_order(order):
    return None if order is None else [{"IL": "IR", "IR": "IL", "UL": "UR", "UR": "UL"}.get(a, a) for a in order]
