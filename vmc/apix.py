"""
E2: breadth-first exploration of API call sequences of one real component against a reference model.

A node is a call sequence; the component (and its reference model) is rebuilt and the sequence replayed
for every expansion (objects are microsecond-cheap).  Nodes are deduplicated on a structural dump of
(component, model).  A 'spec' module provides:

    configs(tier)                   -> list of cfg dicts (one BFS per cfg)
    depth(tier, cfg)                -> int
    make(cfg)                       -> state object (component + model) ; must be closed with close(state)
    alphabet(cfg)                   -> list of ops (JSON-serialisable lists)
    apply(state, op, check)         -> list of violation dicts (check=False while replaying a prefix)
    dump(state)                     -> hashable structural dump
    close(state)
"""
import hashlib
import importlib
import multiprocessing as mp
import time

from . import report


def report_viol(kind, sig, detail):
    return {"kind": kind, "sig": sig, "detail": detail}


def _digest(obj):
    return hashlib.sha1(repr(obj).encode()).digest()[:12]


def _expand(arg):
    modname, cfg, seqs = arg
    spec = importlib.import_module(modname)
    alpha = spec.alphabet(cfg)
    out = []
    ntrans = 0
    for si, seq in enumerate(seqs):
        for oi, op in enumerate(alpha):
            st = spec.make(cfg)
            try:
                for o in seq:
                    spec.apply(st, o, False)
                try:
                    vs = spec.apply(st, op, True)
                    d = _digest(spec.dump(st))
                except Exception as e:      # the component (or a reader used by the oracle) blew up: a finding, not a crash
                    import traceback
                    tb = traceback.extract_tb(e.__traceback__)
                    where = next((f for f in reversed(tb) if "/cloudsync/" in f.filename.replace("\\", "/")), tb[-1])
                    vs = [report_viol("raised", "%s@%s" % (type(e).__name__, where.name),
                                      {"error": repr(e)[:200], "where": "%s:%s" % (where.filename.rsplit("/", 1)[-1], where.name)})]
                    d = _digest(("raised", type(e).__name__, where.name))
            finally:
                spec.close(st)
            ntrans += 1
            out.append((si, oi, d, vs))
    return out, ntrans


def bfs(modname, cfg, depth, cap=200000, chunk=40, pool=None):
    spec = importlib.import_module(modname)
    alpha = spec.alphabet(cfg)
    st = spec.make(cfg)
    seen = {_digest(spec.dump(st))}
    spec.close(st)
    frontier = [[]]
    stats = {"states": 1, "transitions": 0, "levels": [], "capped": False, "alphabet": len(alpha)}
    viols = []
    sample = None
    for lvl in range(depth):
        chunks = [frontier[i:i + chunk] for i in range(0, len(frontier), chunk)]
        args = [(modname, cfg, c) for c in chunks]
        if pool is not None and len(chunks) > 1:
            results = pool.imap(_expand, args)
        else:
            results = map(_expand, args)
        nxt = []
        for c, (res, ntrans) in zip(chunks, results):
            stats["transitions"] += ntrans
            for si, oi, d, vs in res:
                seq = c[si] + [alpha[oi]]
                for v in vs:
                    v = dict(v)
                    v["hist"] = seq
                    if not any(o["kind"] == v["kind"] and o["sig"] == v["sig"] for o in viols):
                        viols.append(v)
                if d not in seen:
                    seen.add(d)
                    nxt.append(seq)
        stats["levels"].append(len(nxt))
        stats["states"] = len(seen)
        if nxt:
            sample = nxt[-1]
        frontier = nxt
        if len(seen) > cap:
            stats["capped"] = True
            break
        if not frontier:
            break
    stats["sample"] = sample
    return stats, viols


def run(prop, modname, tier, rule, technique, assumptions=()):
    spec = importlib.import_module(modname)
    rep = report.Report(prop, tier, rule=rule, technique=technique, assumptions=assumptions)
    import gc
    gc.collect()
    gc.freeze()
    ctx = mp.get_context("fork")
    results = []
    with ctx.Pool(report.workers(), initializer=report._init_worker) as pool:
        for cfg in spec.configs(tier):
            t0 = time.time()
            stats, viols = bfs(modname, cfg, spec.depth(tier, cfg), cap=spec.cap(tier) if hasattr(spec, "cap") else 200000,
                               pool=pool)
            results.append({"job": {"cfg": cfg}, "states": stats["states"],
                            "transitions": stats["transitions"], "capped": stats["capped"],
                            "evaluations": stats["transitions"], "traces": stats["transitions"],
                            "nontrivial": stats["states"] - 1, "terminals": 0,
                            "sample": {"cfg": cfg, "calls": stats["sample"]},
                            "violations": viols, "outcomes": [],
                            "extra": {"levels_" + str(cfg.get("name", "")): stats["levels"],
                                      "alphabet_" + str(cfg.get("name", "")): stats["alphabet"]},
                            "wall": time.time() - t0})
    rep.add_results(results)
    return rep


def replay(modname, path):
    """re-execute a recorded call sequence on a fresh component, printing what each call violates"""
    import json
    spec = importlib.import_module(modname)
    d = json.load(open(path))
    cfg = d["job"]["cfg"]
    st = spec.make(cfg)
    n = 0
    try:
        for op in d["hist"]:
            vs = spec.apply(st, op, True)
            n += len(vs)
            print(json.dumps(op), "->", json.dumps(vs, default=repr) if vs else "ok")
    finally:
        spec.close(st)
    print("replayed %d calls, %d violation(s) observed" % (len(d["hist"]), n))
    return 1 if n else 0
