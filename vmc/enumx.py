"""
E4: bounded exhaustive input enumeration.

The enumeration engines of C13 (all strings over an alphabet up to a length; all pairs), C08 (every combination of the
codec field domains; every sequence of data-row operations), C16 (hash law over the size classes), C17 (every order of a
set of notifications) and C18 (every outcome sequence of a service loop) are plain nested products over finite domains; this
module holds the shared generators, the laws and oracles live in the property modules.
"""
import itertools


def strings(maxlen, alpha):
    """every string over `alpha` of length 0..maxlen, shortest first"""
    for n in range(0, maxlen + 1):
        for t in itertools.product(alpha, repeat=n):
            yield "".join(t)


def sequences(alphabet, maxlen, minlen=1):
    """every sequence over `alphabet` of length minlen..maxlen, shortest first"""
    for n in range(minlen, maxlen + 1):
        for t in itertools.product(alphabet, repeat=n):
            yield t


def orders(items):
    """every order of `items`"""
    return itertools.permutations(items)
