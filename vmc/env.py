"""
Determinisation layer + binding to the code under test.

Importing this module
  * puts /repo first on sys.path and asserts that `cloudsync` really comes from there,
  * replaces the `time` global of every cloudsync module by a virtual clock that belongs to the
    current World (module-scoped: the interpreter's real `time` is untouched),
  * makes MockFSObject ids, MockFSObject/SyncEntry hashes counter based (per World),
  * points temp files at a per-process directory under /dev/shm.

No source file under /repo is modified; everything is attribute replacement on the imported
modules (guard name CLOUDSYNC_VERIF is set for information only).
"""
import os
import sys
import logging
import atexit
import shutil
import warnings

REPO = os.environ.get("VMC_REPO", "/repo")
if sys.path[0] != REPO:
    sys.path.insert(0, REPO)
os.environ["CLOUDSYNC_VERIF"] = "1"
warnings.filterwarnings("ignore")

SCRATCH = "/dev/shm/vmc-%d" % os.getpid()


def _mk_scratch():
    global SCRATCH
    SCRATCH = "/dev/shm/vmc-%d" % os.getpid()
    os.makedirs(SCRATCH, exist_ok=True)
    import tempfile
    tempfile.tempdir = SCRATCH
    return SCRATCH


def _rm_scratch(path=None, pid=None):
    if pid is not None and pid != os.getpid():
        return
    shutil.rmtree(path or SCRATCH, ignore_errors=True)


_mk_scratch()
atexit.register(_rm_scratch, SCRATCH, os.getpid())


def after_fork():
    """call in pool workers: own scratch dir"""
    p = _mk_scratch()
    atexit.register(_rm_scratch, p, os.getpid())
    # multiprocessing children exit through os._exit: register a finalizer as well
    try:
        from multiprocessing import util
        util.Finalize(None, _rm_scratch, args=(p, os.getpid()), exitpriority=0)
    except Exception:       # pragma: no cover
        pass


import cloudsync                                    # noqa: E402
if not os.path.abspath(cloudsync.__file__).startswith(os.path.abspath(REPO) + os.sep):
    raise ImportError("HARNESS-ERROR cloudsync imported from %s, not from %s" % (cloudsync.__file__, REPO))

import cloudsync.sync.state as S                    # noqa: E402
import cloudsync.sync.manager as M                  # noqa: E402
import cloudsync.cs as C                            # noqa: E402
import cloudsync.event as EV                        # noqa: E402
import cloudsync.providers.mock as MK               # noqa: E402
import cloudsync.runnable as RN                     # noqa: E402
import cloudsync.smartsync as SM                    # noqa: E402
import cloudsync.provider as PR                     # noqa: E402
import cloudsync.utils as UT                        # noqa: E402
import cloudsync.notification as NT                 # noqa: E402
import cloudsync.long_poll as LP                    # noqa: E402

logging.disable(logging.CRITICAL)                   # arguments are still evaluated


class Clock:
    """virtual clock; one per World"""
    def __init__(self, t0=1000.0):
        self.t = t0

    def time(self):
        return self.t

    monotonic = time

    def sleep(self, s):
        if s and s > 0:
            self.t += s


class Counters:
    """per-World allocation counters"""
    def __init__(self, order="asc"):
        self.oid = 0
        self.fso = 0
        self.ent = 0
        self.order = order

    def h(self, n):
        return n if self.order == "asc" else (1 << 20) - n


class _Cur:
    clock = Clock()
    ctr = Counters()
    world = None


CUR = _Cur()


def install(clock, ctr):
    CUR.clock = clock
    CUR.ctr = ctr


class _FakeTime:
    """stand-in for the `time` module inside cloudsync modules"""
    @staticmethod
    def time():
        return CUR.clock.t

    @staticmethod
    def monotonic():
        return CUR.clock.t

    @staticmethod
    def sleep(s):
        CUR.clock.sleep(s)

    def __getattr__(self, k):
        import time as _t
        return getattr(_t, k)


FAKE_TIME = _FakeTime()
import time as _real_time                           # noqa: E402
for _name, _mod in list(sys.modules.items()):
    if _name.startswith("cloudsync") and _mod is not None and getattr(_mod, "time", None) is _real_time:
        if _name.startswith("cloudsync.providers.") and not _name.endswith(".mock"):
            continue            # filesystem/box/dropbox keep the real clock (C16 drives filesystem directly)
        _mod.time = FAKE_TIME

# ---- deterministic mock object ids and hashes -------------------------------------------------
_orig_fso_init = MK.MockFSObject.__init__


def _fso_init(self, path, object_type, oid_is_path, hash_func, contents=None, mtime=None):
    c = CUR.ctr
    c.fso += 1
    self._vhash = c.h(c.fso)
    _orig_fso_init(self, path, object_type, oid_is_path, hash_func, contents, mtime)
    if not oid_is_path:
        c.oid += 1
        self.oid = "o%d" % c.oid


MK.MockFSObject.__init__ = _fso_init
MK.MockFSObject.__hash__ = lambda self: self._vhash
MK.MockFSObject.__eq__ = lambda self, o: self is o

_orig_se_init = S.SyncEntry.__init__


def _se_init(self, *a, **kw):
    c = CUR.ctr
    c.ent += 1
    object.__setattr__(self, "_vseq", c.ent)
    object.__setattr__(self, "_vhash", c.h(c.ent))
    _orig_se_init(self, *a, **kw)


S.SyncEntry.__init__ = _se_init
S.SyncEntry.__hash__ = lambda self: self._vhash


def _wrap_do(cls):
    orig = cls.__dict__["do"]

    def do(self):
        try:
            return orig(self)
        except RN._BackoffError:
            raise
        except BaseException as e:
            w = CUR.world
            if w is not None and not getattr(e, "_vmc_crash", False):
                w.excs.append((w.in_engine, type(e).__name__, _where(e)))
            raise
    do._vmc_orig = orig
    cls.do = do


def _where(e):
    tb = e.__traceback__
    last = None
    while tb is not None:
        f = tb.tb_frame.f_code
        if "/cloudsync/" in f.co_filename and "/vmc/" not in f.co_filename:
            last = "%s:%s" % (os.path.basename(f.co_filename), f.co_name)
        tb = tb.tb_next
    return last


_wrap_do(M.SyncManager)
_wrap_do(EV.EventManager)


class _LazyTempfile:
    """SyncManager only needs a unique directory *name*: it creates the directory itself on first use
    (manager._temp_file) and tolerates its absence in done(); not creating it saves two tmpfs operations
    per World (16 workers hammering one tmpfs otherwise serialise in the kernel)."""
    n = 0

    def mkdtemp(self, suffix="", prefix="tmp", dir=None):
        _LazyTempfile.n += 1
        return os.path.join(SCRATCH, "%s%d%s" % (prefix, _LazyTempfile.n, suffix))

    def __getattr__(self, k):
        import tempfile
        return getattr(tempfile, k)


M.tempfile = _LazyTempfile()


def release_guard(provs):
    for p in provs:
        EV.EventManager._provider_guard.remove(p)
