"""Boring reference models: a dict tree for user operations / provider contract."""


class Tree:
    """{path: None (folder) | bytes}; paths are root-relative, '/'-separated, no leading slash"""

    def __init__(self, items=None):
        self.t = dict(items or {})

    def copy(self):
        return Tree(self.t)

    @staticmethod
    def parent(p):
        return p.rsplit("/", 1)[0] if "/" in p else ""

    def has_parent(self, p):
        par = self.parent(p)
        return par == "" or (par in self.t and self.t[par] is None)

    def kids(self, p):
        return [q for q in self.t if q.startswith(p + "/")]

    def apply(self, op):
        """returns True if the operation is valid on this tree (and applies it)"""
        k = op[0]
        t = self.t
        if k == "create":
            p = op[1]
            if p in t or not self.has_parent(p):
                return False
            t[p] = _b(op[2]) if len(op) > 2 else b""
            return True
        if k == "write":
            p = op[1]
            if p not in t or t[p] is None:
                return False
            t[p] = _b(op[2]) if len(op) > 2 else b""
            return True
        if k == "mkdir":
            p = op[1]
            if p in t or not self.has_parent(p):
                return False
            t[p] = None
            return True
        if k == "delete":
            p = op[1]
            if p not in t:
                return False
            if t[p] is None and self.kids(p):
                return False
            del t[p]
            return True
        if k == "rename":
            p, q = op[1], op[2]
            if p not in t or not self.has_parent(q) or q == p or q.startswith(p + "/"):
                return False
            if q in t:
                # mock semantics: only an empty folder may be replaced by a folder
                if not (t[q] is None and t[p] is None and not self.kids(q)):
                    return False
            moved = {p: t[p]}
            for c in self.kids(p):
                moved[c] = t[c]
            for c in moved:
                del t[c]
            for c, v in moved.items():
                t[q + c[len(p):]] = v
            return True
        raise ValueError(k)


def _b(x):
    return x.encode() if isinstance(x, str) else x


def base_tree(ops):
    t = Tree()
    for op in ops:
        assert t.apply(op), op
    return t


def valid_seq(base, seq):
    t = base.copy()
    for op in seq:
        if not t.apply(op):
            return False
    return True
