"""Shared driver base for the E1 (engine exploration) properties."""
import json
from ..world import World, trees_equal_mod_conflicted, artefacts, _show_tree, CFGS
from ..seqx import viol, explore, digest
from .. import seqx


BEHAVIOURS = ["local_keep", "local_drop", "remote_keep", "remote_drop", "merged_drop", "merged_keep",
              "none", "raises", "nontuple", "triple", "nonfile", "local_drop_read", "remote_drop_read", "merged_drop_written"]
MERGED = b"MERGED"


def resolver(w, f1, f2):
    import io
    b = w.opts["resolver"]
    rec = []
    for f in (f1, f2):
        f.seek(0)
        data = f.read()
        f.seek(0)
        actual = None
        known = None
        believed = None     # does the hash the engine holds for this side describe the bytes the side holds now?
        try:
            o = w.provs[f.side]._mock_fs.get(f.info.oid)
            actual = o.contents if (o is not None and o.exists) else None
            known = getattr(w, "intake_snapshot", ({}, {}))[f.side].get(f.info.oid)
            if actual is not None:
                believed = f.info.hash == w.provs[f.side].hash_data(io.BytesIO(actual))
        except Exception:
            pass
        rec.append((f.side, f.path, data, actual, known, believed))
    w.resolver_calls.append(rec)
    loc = f1 if f1.side == 0 else f2
    rem = f1 if f1.side == 1 else f2
    if b == "local_keep":
        return (loc, True)
    if b == "local_drop":
        return (loc, False)
    if b == "remote_keep":
        return (rem, True)
    if b == "remote_drop":
        return (rem, False)
    if b == "local_drop_read":          # the application read both handles to decide and hands one back as it is
        return (loc, False) if (loc.read() or True) else None
    if b == "remote_drop_read":
        return (rem, False) if (rem.read() or True) else None
    if b == "merged_drop_written":      # merged data written into a buffer that is handed back un-rewound
        buf = io.BytesIO()
        buf.write(MERGED)
        return (buf, False)
    if b == "merged_drop":
        return (io.BytesIO(MERGED), False)
    if b == "merged_keep":
        return (io.BytesIO(MERGED), True)
    if b == "none":
        return None
    if b == "raises":
        raise RuntimeError("resolver blew up")
    if b == "nontuple":
        return loc
    if b == "triple":
        return (loc, True, 1)
    if b == "nonfile":
        return ("not a file", True)
    raise ValueError(b)


class Driver:
    """default driver: C01 oracle (convergence at quiet states)"""
    prop = "C01"

    def make_world(self, job):
        w = World(job)
        if w.opts.get("resolver") is not None:
            w.resolver_calls = []
            w.hooks["resolver"] = resolver
        return w

    def on_step(self, w, a, pre):
        return []

    def fold(self, w):
        return not (w.cfg[0][1] and w.cfg[1][1])

    def observe(self, w):
        return {"L": _show_tree(w.tree(0)), "R": _show_tree(w.tree(1))}

    def on_terminal(self, w):
        tl, tr = w.tree(0), w.tree(1)
        vs = []
        if not trees_equal_mod_conflicted(tl, tr, self.fold(w)):
            obs = {"L": _show_tree(tl), "R": _show_tree(tr)}
            vs.append(viol("diverge", digest(json.dumps(obs, sort_keys=True)), obs))
        # "once ... the engine reports nothing left to do": a state in which no step changes anything any more but the engine
        # still reports pending work is the engine looping in place
        try:
            busy = bool(w.cs.busy)
        except Exception:
            busy = False
        if busy and self.prop == "C01":
            pend = sorted(str(e[0]._path or e[1]._path) for e in w.cs.state._changeset)
            vs.append(viol("quiet-but-busy", ",".join(p.rsplit("/", 1)[-1] for p in pend)[:60],
                           {"pending": pend, "L": _show_tree(tl), "R": _show_tree(tr)}))
        return self.observe(w), vs


def run_explore(drv, job, liveness_fallback=False):
    mode = job.get("mode") or {}
    res = explore(drv, job, k=mode.get("k"), cap=mode.get("cap", 4000), audit_every=mode.get("audit", 0),
                  max_depth=mode.get("depth", 120), depth_is_bound=bool(mode.get("depth_bound")),
                  order=mode.get("order"))
    if liveness_fallback and res.capped and mode.get("k") is None:
        # the full graph is incomplete, so the fair-schedule walk could not be done on it: decide liveness on the
        # concrete prompt schedule instead (k=0, every execution runs until quiet or H steps)
        res0 = explore(drv, job, k=0, cap=4000, max_depth=400)
        for v in res0.violations:
            if v["kind"] == "noquiesce":
                res.add_violation(v, v["hist"])
        res.transitions += res0.transitions
    for v in res.violations:
        v.pop("_srcs", None)
    out = res.summary()
    out["violations"] = res.violations
    out["outcomes"] = list(res.outcomes.keys())[:50]
    out["nontrivial"] = res.nontrivial
    out["evaluations"] = res.terminals
    out["traces"] = res.terminals
    out["sample"] = res.sample
    out["extra"] = {"max_depth_max": 0}
    return out
