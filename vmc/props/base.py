"""Shared driver base for the E1 (engine exploration) properties."""
import json
from ..world import World, trees_equal_mod_conflicted, artefacts, _show_tree, CFGS
from ..seqx import viol, explore, digest
from .. import seqx


class Driver:
    """default driver: C01 oracle (convergence at quiet states)"""
    prop = "C01"

    def make_world(self, job):
        return World(job)

    def on_step(self, w, a, pre):
        return []

    def fold(self, w):
        return not (w.cfg[0][1] and w.cfg[1][1])

    def observe(self, w):
        return {"L": _show_tree(w.tree(0)), "R": _show_tree(w.tree(1))}

    def on_terminal(self, w):
        tl, tr = w.tree(0), w.tree(1)
        vs = []
        if not trees_equal_mod_conflicted(tl, tr, self.fold(w)):
            obs = {"L": _show_tree(tl), "R": _show_tree(tr)}
            vs.append(viol("diverge", digest(json.dumps(obs, sort_keys=True)), obs))
        return self.observe(w), vs


def run_explore(drv, job):
    mode = job.get("mode") or {}
    res = explore(drv, job, k=mode.get("k"), cap=mode.get("cap", 4000), audit_every=mode.get("audit", 0),
                  max_depth=mode.get("depth", 120))
    out = res.summary()
    out["violations"] = res.violations
    out["outcomes"] = list(res.outcomes.keys())[:50]
    out["nontrivial"] = res.nontrivial
    out["evaluations"] = res.terminals
    out["traces"] = res.terminals
    out["sample"] = res.sample
    out["extra"] = {"max_depth_max": 0}
    return out
