"""C01 two-way convergence and bounded quiescence (DESIGN 5/C01)."""
from .. import report, alphabet as A
from .base import Driver, run_explore

PROP = "C01"
DRIVER = Driver()


def histories():
    from ..world import BASES
    one = A.valid_histories(BASES["B1"], A.UEXT, 2)
    single = [h for h in one if len(h) == 1]
    hists = [[h, []] for h in one] + [[[], h] for h in one]
    hists += [[a, b] for a in single for b in single]
    return hists


def jobs(tier):
    out = []
    cfgs = ["oo", "po"] if tier == "quick" else ["oo", "po", "ci", "pci", "pp"]
    orders = ["asc"] if tier == "quick" else ["asc", "desc"]
    hists = histories()
    for cfg in cfgs:
        for order in orders:
            for sc in hists:
                out.append({"prop": PROP, "cfg": cfg, "order": order, "base": "B1", "scripts": A.stamp(sc),
                            "mode": {"k": None, "cap": 2000 if tier == "quick" else 6000, "depth": 60 if tier == "quick" else 120, "audit": 64 if tier == "quick" else 8}})
    # both sides write identical bytes (the engine merges such conflicts silently), alone and combined with a rename/delete
    same = [[[["write", "a", "SAME"]], [["write", "a", "SAME"]]],
            [[["create", "c", "SAME"]], [["create", "c", "SAME"]]],
            [[["write", "a", "SAME"], ["rename", "a", "c"]], [["write", "a", "SAME"]]],
            [[["write", "a", "SAME"]], [["write", "a", "SAME"], ["rename", "a", "c"]]],
            [[["write", "a", "SAME"], ["delete", "a"]], [["write", "a", "SAME"]]],
            [[["create", "c", "SAME"], ["rename", "c", "d/c"]], [["create", "c", "SAME"]]],
            [[["write", "a", "SAME"]], [["write", "a", "SAME"], ["write", "a", "R2"]]]]
    for cfg in cfgs:
        for sc in same:
            out.append({"prop": PROP, "cfg": cfg, "order": "asc", "base": "B1", "scripts": sc,
                        "mode": {"k": None, "cap": 2500, "depth": 60, "audit": 0}})
    # phased histories: a first two-sided history is run to quiescence (users first, fair schedule); whatever bookkeeping it
    # leaves behind is the start state for one further operation on either side, explored in every interleaving
    phased = [
        ([[["write", "a", "SAME"]], [["write", "a", "SAME"]]], "a"),
        ([[["create", "c", "SAME"]], [["create", "c", "SAME"]]], "c"),
        ([[["write", "a", "P1"]], [["write", "a", "P2"]]], "a"),
        ([[["create", "c", "P1"]], [["create", "c", "P2"]]], "c"),
        ([[["rename", "a", "c"]], [["write", "a", "P2"]]], "c"),
        ([[["rename", "a", "c"]], [["rename", "a", "e"]]], "c"),
        ([[["delete", "a"]], [["write", "a", "P2"]]], "a"),
        ([[["rename", "d", "e"]], [["create", "d/x", "P2"]]], "e/b"),
        ([[["mkdir", "c"]], [["create", "c", "P2"]]], "c"),
        ([[["write", "d/b", "SAME"], ["rename", "d/b", "d/k"]], [["write", "d/b", "SAME"]]], "d/k"),
    ]
    for cfg in (["oo", "po"] if tier == "quick" else ["oo", "po", "pp", "op", "ci"]):
        for pre, f in phased:
            leaf = f.rsplit("/", 1)[-1]
            for op in (["rename", f, "z"], ["write", f], ["delete", f], ["rename", f, "d/" + leaf + "2"]):
                for side in (0, 1):
                    sc = [[], []]
                    sc[side] = [list(op)]
                    out.append({"prop": PROP, "cfg": cfg, "order": "asc", "base": "B1", "pre": pre, "scripts": A.stamp(sc),
                                "mode": {"k": None, "cap": 1500, "depth": 60, "audit": 0}})
            for sc in ([[["rename", f, "z"]], [["write", f]]], [[["write", f]], [["rename", f, "z"]]],
                       [[["delete", f]], [["write", f]]], [[["write", f]], [["write", f]]]):
                out.append({"prop": PROP, "cfg": cfg, "order": "asc", "base": "B1", "pre": pre, "scripts": A.stamp(sc),
                            "mode": {"k": None, "cap": 1500, "depth": 60, "audit": 0}})
    # application resolver answering "merged data, keep both": the engine must still go quiet (fair schedule, k=0)
    for cfg in cfgs:
        for shape, path in (("create", "c"), ("write", "a")):
            out.append({"prop": PROP, "cfg": cfg, "order": "asc", "base": "B1",
                        "scripts": [[[shape, path, "L1"]], [[shape, path, "R1"]]], "opts": {"resolver": "merged_keep", "users_first": True},
                        "mode": {"k": 0, "cap": 3000, "depth": 400}})
    return out


def run_job(job):
    return run_explore(DRIVER, job, liveness_fallback=True)


def main(tier):
    rep = report.Report(PROP, tier,
                        rule="every history of <=2 user operations over the 27-op alphabet (sequences valid on the reference tree) (one-sided and 1+1 cross) from "
                             "base tree B1, every interleaving of user ops with intake(L), intake(R), sync steps "
                             "(full) on the real engine; non-trivial = history in which >=2 different actors act; "
                             "distinct = distinct canonical state",
                        technique="explicit-state model checking of the implementation (exhaustive schedule "
                                  "exploration with canonical-state deduplication and replay)")
    rep.add_results(report.pmap(__name__, jobs(tier), progress=200))
    return rep.finish()
