"""C01 two-way convergence and bounded quiescence (DESIGN 5/C01)."""
from .. import report, alphabet as A
import json
from ..seqx import digest, viol
from .base import Driver, run_explore

PROP = "C01"
DRIVER = Driver()


def histories():
    from ..world import BASES
    one = A.valid_histories(BASES["B1"], A.UEXT, 2)
    single = [h for h in one if len(h) == 1]
    hists = [[h, []] for h in one] + [[[], h] for h in one]
    hists += [[a, b] for a in single for b in single]
    return hists


def jobs(tier):
    out = []
    cfgs = ["oo", "po"] if tier == "quick" else ["oo", "po", "ci", "pci", "pp"]
    orders = ["asc"] if tier == "quick" else ["asc", "desc"]
    hists = histories()
    for cfg in cfgs:
        for order in orders:
            for sc in hists:
                out.append({"prop": PROP, "cfg": cfg, "order": order, "base": "B1", "scripts": A.stamp(sc),
                            "mode": {"k": None, "cap": 2000 if tier == "quick" else 6000, "depth": 60 if tier == "quick" else 120, "audit": 64 if tier == "quick" else 8}})
    # both sides write identical bytes (the engine merges such conflicts silently), alone and combined with a rename/delete
    same = [[[["write", "a", "SAME"]], [["write", "a", "SAME"]]],
            [[["create", "c", "SAME"]], [["create", "c", "SAME"]]],
            [[["write", "a", "SAME"], ["rename", "a", "c"]], [["write", "a", "SAME"]]],
            [[["write", "a", "SAME"]], [["write", "a", "SAME"], ["rename", "a", "c"]]],
            [[["write", "a", "SAME"], ["delete", "a"]], [["write", "a", "SAME"]]],
            [[["create", "c", "SAME"], ["rename", "c", "d/c"]], [["create", "c", "SAME"]]],
            [[["write", "a", "SAME"]], [["write", "a", "SAME"], ["write", "a", "R2"]]]]
    for cfg in cfgs:
        for sc in same:
            out.append({"prop": PROP, "cfg": cfg, "order": "asc", "base": "B1", "scripts": sc,
                        "mode": {"k": None, "cap": 2500, "depth": 60, "audit": 0}})
    # phased histories: a first two-sided history is run to quiescence (users first, fair schedule); whatever bookkeeping it
    # leaves behind is the start state for one further operation on either side, explored in every interleaving
    phased = [
        ([[["write", "a", "SAME"]], [["write", "a", "SAME"]]], "a"),
        ([[["create", "c", "SAME"]], [["create", "c", "SAME"]]], "c"),
        ([[["write", "a", "P1"]], [["write", "a", "P2"]]], "a"),
        ([[["create", "c", "P1"]], [["create", "c", "P2"]]], "c"),
        ([[["rename", "a", "c"]], [["write", "a", "P2"]]], "c"),
        ([[["rename", "a", "c"]], [["rename", "a", "e"]]], "c"),
        ([[["delete", "a"]], [["write", "a", "P2"]]], "a"),
        ([[["rename", "d", "e"]], [["create", "d/x", "P2"]]], "e/b"),
        ([[["mkdir", "c"]], [["create", "c", "P2"]]], "c"),
        ([[["write", "d/b", "SAME"], ["rename", "d/b", "d/k"]], [["write", "d/b", "SAME"]]], "d/k"),
    ]
    for cfg in (["oo", "po"] if tier == "quick" else ["oo", "po", "pp", "op", "ci"]):
        for pre, f in phased:
            leaf = f.rsplit("/", 1)[-1]
            for op in (["rename", f, "z"], ["write", f], ["delete", f], ["rename", f, "d/" + leaf + "2"]):
                for side in (0, 1):
                    sc = [[], []]
                    sc[side] = [list(op)]
                    out.append({"prop": PROP, "cfg": cfg, "order": "asc", "base": "B1", "pre": pre, "scripts": A.stamp(sc),
                                "mode": {"k": None, "cap": 1500, "depth": 60, "audit": 0}})
            for sc in ([[["rename", f, "z"]], [["write", f]]], [[["write", f]], [["rename", f, "z"]]],
                       [[["delete", f]], [["write", f]]], [[["write", f]], [["write", f]]]):
                out.append({"prop": PROP, "cfg": cfg, "order": "asc", "base": "B1", "pre": pre, "scripts": A.stamp(sc),
                            "mode": {"k": None, "cap": 1500, "depth": 60, "audit": 0}})
    # both sides rename the same synced file to different names while one side also edits it (every interleaving)
    for cfg in cfgs:
        for n1, n2 in (("z", "b"), ("b", "z")):
            for sc in ([[["write", "a", "L1"], ["rename", "a", n1]], [["rename", "a", n2]]],
                       [[["rename", "a", n1], ["write", n1, "L1"]], [["rename", "a", n2]]],
                       [[["rename", "a", n2]], [["write", "a", "R1"], ["rename", "a", n1]]],
                       [[["rename", "a", n1]], [["rename", "a", n2]]]):
                out.append({"prop": PROP, "cfg": cfg, "order": "asc", "base": "B1", "scripts": sc,
                            "mode": {"k": None, "cap": 3000, "depth": 70, "audit": 0}})
    out.extend(_mid_jobs(tier))
    # application resolver answering "merged data, keep both": the engine must still go quiet (fair schedule, k=0)
    for cfg in cfgs:
        for shape, path in (("create", "c"), ("write", "a")):
            out.append({"prop": PROP, "cfg": cfg, "order": "asc", "base": "B1",
                        "scripts": [[[shape, path, "L1"]], [[shape, path, "R1"]]], "opts": {"resolver": "merged_keep", "users_first": True},
                        "mode": {"k": 0, "cap": 3000, "depth": 400}})
    return out


# ---- users acting in the MIDDLE of an engine step (between two provider calls of one intake / sync step)
def _mid_jobs(tier):
    out = []
    cfgs = ["oo", "po"] if tier == "quick" else ["oo", "po", "pp", "op", "ci"]
    # first-ever start: the initial walk and first synchronisation are running when the user acts
    for cfg in cfgs:
        for side in (0, 1):
            for op in (["delete", "m"], ["delete", "d/b"], ["rename", "d", "x"], ["write", "a", "M1"], ["delete", "a"],
                       ["mkdir", "e"], ["rename", "m", "n"], ["create", "m/f", "M2"]):
                for base in (("B4", "B5") if op[:2] in (["delete", "m"], ["rename", "m", "n"]) else ("B4",)):
                    out.append({"prop": PROP, "cfg": cfg, "order": "asc", "base": base, "scripts": [[], []], "mid": [[side, op]],
                                "midstep": True, "opts": {"unsynced_base": True, "base_side": side, "check_base": False}})
    # steady state: a first operation has created work for the engine, the second one lands inside a step
    pairs = [(["create", "c", "P1"], [["write", "c", "M1"], ["delete", "c"], ["rename", "c", "k"]]),
             (["mkdir", "e"], [["create", "e/x", "M1"], ["delete", "e"], ["rename", "e", "k"]]),
             (["write", "a", "P1"], [["write", "a", "M1"], ["delete", "a"], ["rename", "a", "k"]]),
             (["rename", "d", "e"], [["create", "e/x", "M1"], ["write", "e/b", "M1"], ["rename", "e", "d"], ["delete", "e/b"]]),
             (["rename", "a", "c"], [["write", "c", "M1"], ["rename", "c", "a"], ["delete", "c"]]),
             (["delete", "a"], [["create", "a", "M1"], ["mkdir", "a"]])]
    for cfg in cfgs:
        for side in (0, 1):
            for pre, mids in pairs:
                for m in mids:
                    sc = [[], []]
                    sc[side] = [list(pre)]
                    out.append({"prop": PROP, "cfg": cfg, "order": "asc", "base": "B1", "scripts": sc, "mid": [[side, list(m)]],
                                "midstep": True, "opts": {}})
            # the peer acts mid-step on the same file
            for pre, m in ((["write", "a", "P1"], ["write", "a", "M1"]), (["write", "a", "P1"], ["delete", "a"]),
                           (["rename", "a", "c"], ["write", "a", "M1"])):
                sc = [[], []]
                sc[side] = [list(pre)]
                out.append({"prop": PROP, "cfg": cfg, "order": "asc", "base": "B1", "scripts": sc, "mid": [[1 - side, list(m)]],
                            "midstep": True, "opts": {}})
    return out


def _mid_apply(w, mid):
    w._nested += 1          # provider calls made here are the user's, not the engine's
    try:
        for side, op in mid:
            w.clock.t = float(int(w.clock.t) + 1)
            ok = w._raw_user(side, list(op))
            w.user_log.append((side, tuple(op), ok))
    finally:
        w._nested -= 1


def run_midstep(job):
    from .products import judge
    from ..world import NoQuiescence
    mid = job["mid"]

    def start():
        w = DRIVER.make_world(job)
        for side in (0, 1):
            while w.pos[side] < len(w.scripts[side]):
                w.user(side)
        return w
    fold = DRIVER.fold
    # reference run: the user acts after the engine has gone quiet
    w = start()
    try:
        n0 = w.api_count
        try:
            w.settle(limit=150)
            N = w.api_count - n0
            _mid_apply(w, mid)
            w.settle(limit=150)
        except NoQuiescence:
            return _mid_result(job, 0, {}, "reference run does not go quiet (see the interleaving jobs)")
        base = judge(w, fold(w))
    finally:
        w.close()
    if not base["converged"] or base["lost"] or base["busy"]:
        return _mid_result(job, 0, {}, "reference run fails (see the interleaving jobs)")
    vs = {}
    n_eval = 0
    for k in range(1, N + 1):
        w = start()
        try:
            fired = []

            def fault(side, name, phase, idx, a, _w=w, _k=k + w.api_count):
                if phase == "before" and idx == _k and not fired:
                    fired.append("%s.%s" % ("LR"[side], name))
                    _mid_apply(_w, mid)
            w.fault = fault
            bad = None
            try:
                w.settle(limit=150)
                if not fired:
                    _mid_apply(w, mid)
                    fired.append("after-quiet")
                    w.settle(limit=150)
            except NoQuiescence:
                bad = ("noquiesce", {})
            n_eval += 1
            if bad is None:
                j = judge(w, fold(w))
                if j["busy"]:
                    bad = ("busy", {"pending": j["busy"]})
                elif not j["converged"]:
                    bad = ("diverge", j["trees"])
                elif j["lost"]:
                    bad = ("lost:" + ",".join(j["lost"]), j["trees"])
            if bad is not None:
                sig = "mid@%s:%s:%s" % (fired[0] if fired else "?", bad[0], digest(json.dumps(bad[1], sort_keys=True, default=repr)))
                if sig not in vs:
                    vs[sig] = viol("midstep-" + bad[0].split(":")[0], sig, {"api_call": k, "landed_before": fired[:1], "observed": bad[1]})
                    vs[sig]["hist"] = ["USER-OPS", "ENGINE(user acts before API call #%d %s)" % (k, fired[0] if fired else ""), "SETTLE"]
        finally:
            w.close()
    return _mid_result(job, n_eval, vs, None, N)


def _mid_result(job, n_eval, vs, note, N=0):
    return {"states": max(n_eval * 8, 1), "transitions": max(n_eval * 8, 1), "evaluations": n_eval, "traces": n_eval,
            "nontrivial": n_eval, "terminals": n_eval, "capped": False, "violations": list(vs.values()), "outcomes": [],
            "sample": {"note": note, "api_calls": N}, "extra": {"base_runs_gated_out": 1 if note else 0}}


def run_job(job):
    if job.get("midstep"):
        return run_midstep(job)
    return run_explore(DRIVER, job, liveness_fallback=True)


def main(tier):
    rep = report.Report(PROP, tier,
                        rule="every history of <=2 user operations over the 27-op alphabet (sequences valid on the reference tree) (one-sided and 1+1 cross) from "
                             "base tree B1, every interleaving of user ops with intake(L), intake(R), sync steps "
                             "(full) on the real engine; non-trivial = history in which >=2 different actors act; "
                             "distinct = distinct canonical state",
                        technique="explicit-state model checking of the implementation (exhaustive schedule "
                                  "exploration with canonical-state deduplication and replay)")
    rep.add_results(report.pmap(__name__, jobs(tier), progress=200))
    return rep.finish()
