"""C02 no silent data loss; conflicts keep both; corrupt reads never replace the good copy."""
import json
from .. import report, alphabet as A
from ..world import BASES, _show_tree, artefacts, World, _is_conflicted
from ..seqx import viol, digest
from .base import Driver, run_explore
import cloudsync.exceptions as ex

PROP = "C02"

UC = [["write", "a"], ["delete", "a"], ["rename", "a", "c"], ["rename", "a", "d/a"], ["create", "c"], ["mkdir", "c"],
      ["create", "d/a"], ["delete", "d"], ["rename", "d", "c"], ["write", "d/b"], ["delete", "d/b"], ["create", "a"],
      ["rename", "d/b", "a"], ["mkdir", "d/a"]]


class D(Driver):
    prop = PROP

    def make_world(self, job):
        w = World(job)
        cor = (job.get("opts") or {}).get("corrupt")
        if cor:
            side = cor["side"]
            bad = cor["content"].encode()
            p = w.provs[side]
            orig = p.download
            w.corrupt_hits = 0

            def download(oid, f, _orig=orig, _p=p):
                o = _p._mock_fs.get(oid)
                if o is not None and o.exists and o.contents == bad:
                    w.corrupt_hits += 1
                    raise ex.CloudCorruptError("unreadable")
                return _orig(oid, f)
            p.download = download
        w.vanish = {}       # content -> engine call sites of the step during which its last copy disappeared
        w.hooks["key"] = lambda world: (tuple(sorted(world.vanish.items())),)
        orig_step = w.step

        def step(which):    # (inside the step, not in the monitor: it is part of the state key and must survive replays)
            n, had = len(w.engine_writes), w.all_contents()
            try:
                orig_step(which)
            finally:
                if len(w.engine_writes) > n:
                    have = w.all_contents()
                    for c in had - have:
                        w.vanish[c] = tuple(w.write_sites[n:])
                    for c in have:
                        w.vanish.pop(c, None)
        w.step = step
        return w

    def on_step(self, w, a, pre):
        vs = []
        cor = w.opts.get("corrupt")
        if cor and a == "S":
            bad = cor["content"].encode()
            other = 1 - cor["side"]
            for k, o in w.provs[other]._mock_fs._objects.items():
                if k.startswith("/") and o.exists and o.contents == bad and bad not in w.user_wrote_on(other) \
                        and bad not in w.base_contents:
                    vs.append(viol("corrupt-copied", o.path, {"path": o.path}))
        return vs

    def on_terminal(self, w):
        obs = {"L": _show_tree(w.tree(0)), "R": _show_tree(w.tree(1))}
        vs = []
        have = w.all_contents()
        must = set(w.written) - w.destroyed
        cor = w.opts.get("corrupt")
        if cor:
            # an unreadable version is, by the statement, replaced by the good copy: it is not content to preserve
            must.discard(cor["content"].encode())
        base_contents = {b"1", b"2", b"3", b"4"}
        for c in sorted(must):
            if c not in have:
                vs.append(viol("lost", c.decode("latin1") + "@" + ",".join(w.vanish.get(c, ("never-copied",))),
                               {"trees": obs, "written_at": list(w.written[c])}))
        # base content nobody destroyed must survive as well
        for c in sorted(w.base_contents - w.destroyed):
            if c not in have:
                vs.append(viol("lost", c.decode("latin1") + "@" + ",".join(w.vanish.get(c, ("?",))), {"trees": obs, "written_at": "base"}))
        # conflict clause: 1+1 create/create or write/write on the same path, both versions required to survive
        sl, sr = w.scripts
        if len(sl) == 1 and len(sr) == 1 and sl[0][0] in ("create", "write") and sl[0][0] == sr[0][0] \
                and sl[0][1] == sr[0][1] and not w.opts.get("corrupt"):
            vl, vr = sl[0][2].encode(), sr[0][2].encode()
            if vl in must and vr in must and all(ok for _, _, ok in w.user_log):
                p = sl[0][1]
                tl, tr = w.tree(0), w.tree(1)
                if not (tl.get(p) == tr.get(p) and tl.get(p) in (vl, vr)):
                    vs.append(viol("conflict-winner", digest(json.dumps(obs, sort_keys=True)), obs))
                else:
                    loser = vr if tl.get(p) == vl else vl
                    kept = [q for t in (tl, tr) for q, v in t.items() if v == loser and _is_conflicted(q)]
                    if not kept:
                        vs.append(viol("conflict-loser-not-kept", digest(json.dumps(obs, sort_keys=True)), obs))
        return obs, vs


def _user_wrote_on(self, side):
    return {c for c, (s, p) in self.written.items() if s == side}


World.user_wrote_on = _user_wrote_on
World.base_contents = frozenset()
_orig_init = World.__init__


def _init(self, job, *a, **kw):
    _orig_init(self, job, *a, **kw)
    if not getattr(self, "_bc", None):
        self.base_contents = frozenset(v for v in self.tree(0).values() if v is not None) if not kw.get("skip_base") else frozenset()


World.__init__ = _init

DRIVER = D()


def jobs(tier):
    out = []
    cfgs = ["oo", "po"] if tier == "quick" else ["oo", "po", "ci", "pp", "op"]
    orders = ["asc"] if tier == "quick" else ["asc", "desc"]
    base = BASES["B1"]
    single = [h for h in A.valid_histories(base, UC, 1)]
    pairs = [[a, b] for a in single for b in single]
    two = [h for h in A.valid_histories(base, UC, 2) if len(h) == 2]
    for cfg in cfgs:
        for order in orders:
            for sc in pairs:
                out.append({"prop": PROP, "cfg": cfg, "order": order, "base": "B1", "scripts": A.stamp(sc),
                            "mode": {"k": None, "cap": 1500, "depth": 60, "audit": 64 if tier == "quick" else 8}})
            if tier != "quick":
                for h2 in two:
                    for h1 in single:
                        for sc in ([h2, h1], [h1, h2]):
                            if not A.disjoint(sc[0], sc[1]):
                                out.append({"prop": PROP, "cfg": cfg, "order": order, "base": "B1",
                                            "scripts": A.stamp(sc),
                                            "mode": {"k": 2, "cap": 1500, "depth": 70, "audit": 16}})
    # replace family (base B3 = files a, b): one side removes or moves b away and puts something else at that name while the
    # other side changes a or b; flavours with path ids on either side included, every interleaving
    repl = [[["delete", "b"], ["rename", "a", "b"]], [["delete", "b"], ["create", "b"]], [["rename", "b", "c"], ["rename", "a", "b"]],
            [["delete", "b"], ["mkdir", "b"]]]
    others = [[["write", "b"]], [["write", "a"]], [["rename", "b", "e"]], [["delete", "b"]], [["delete", "a"]]]
    for cfg in (["oo", "po", "pp", "op"] if tier == "quick" else ["oo", "po", "pp", "op", "ci", "pci"]):
        for r in repl:
            for o in others:
                for sc in ([r, o], [o, r]):
                    out.append({"prop": PROP, "cfg": cfg, "order": "asc", "base": "B3", "scripts": A.stamp(sc),
                                "mode": {"k": None, "cap": 3000 if tier == "quick" else 12000, "depth": 70, "audit": 0}})
    # corrupt-read placements: version v on side s is unreadable
    cor_hists = [
        [[["write", "a"]], []], [[], [["write", "a"]]], [[["create", "c"]], []], [[], [["create", "c"]]],
        [[["write", "a"]], [["write", "a"]]], [[["write", "a"], ["write", "a"]], []],
        [[["write", "a"]], [["rename", "a", "c"]]], [[["create", "c"]], [["create", "c"]]],
    ]
    for cfg in cfgs:
        for sc in cor_hists:
            st = A.stamp(sc)
            for side in (0, 1):
                for op in st[side]:
                    if op[0] in ("create", "write"):
                        out.append({"prop": PROP, "cfg": cfg, "order": "asc", "base": "B1", "scripts": st,
                                    "opts": {"corrupt": {"side": side, "content": op[2]}},
                                    "mode": {"k": None, "cap": 1500, "depth": 60, "audit": 0}})
            # the synced base version of a is unreadable on one side
            for side in (0, 1):
                out.append({"prop": PROP, "cfg": cfg, "order": "asc", "base": "B1", "scripts": st,
                            "opts": {"corrupt": {"side": side, "content": "1"}},
                            "mode": {"k": None, "cap": 1500, "depth": 60, "audit": 0}})
    return out


def run_job(job):
    return run_explore(DRIVER, job)


def main(tier):
    rep = report.Report(PROP, tier,
                        rule="two-sided histories over the collision alphabet (1+1 full; thorough adds non-disjoint 2+1/1+2 "
                             "with <=2 deviations), plus corrupt-read placements (a given version unreadable on one side); "
                             "at quiet state every version written and not destroyed by a user is present in a file on some "
                             "side; same-path create/create and write/write keep the loser as .conflicted; a corrupt "
                             "version never appears on the other side",
                        technique="explicit-state model checking of the implementation (exhaustive schedule exploration)")
    rep.add_results(report.pmap(__name__, jobs(tier), progress=500))
    return rep.finish()
