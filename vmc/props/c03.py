"""C03 one-sided changes mirror exactly; origin untouched; no echo."""
import json
from .. import report, alphabet as A
from ..world import BASES, _show_tree, artefacts, World
from ..seqx import viol, digest
from .base import Driver, run_explore

PROP = "C03"


class D(Driver):
    prop = PROP

    def origin(self, w):
        return 0 if w.scripts[0] else 1

    def pre_step(self, w, a):
        return len(w.engine_writes)

    def on_step(self, w, a, pre):
        vs = []
        if a in ("IL", "IR", "S"):
            o = self.origin(w)
            for (act, side, name, args, t) in w.engine_writes[pre:]:
                if side == o:
                    vs.append(viol("origin-written", "%s:%s" % (name, args[0] if args else ""),
                                   {"side": side, "call": name, "args": list(args)}))
        return vs

    def on_terminal(self, w):
        o = self.origin(w)
        to, tt = w.tree(o), w.tree(1 - o)
        obs = {"L": _show_tree(w.tree(0)), "R": _show_tree(w.tree(1))}
        vs = []
        fold = self.fold(w)
        a, b = (to, tt) if not fold else ({k.lower(): v for k, v in to.items()}, {k.lower(): v for k, v in tt.items()})
        if a != b:
            vs.append(viol("mirror-differs", digest(json.dumps(obs, sort_keys=True)), obs))
        arts = artefacts(to) + artefacts(tt)
        if arts:
            vs.append(viol("artefact", ",".join(sorted(set(arts))), obs))
        # echo: three more rounds must issue no mutating provider call at all
        n0 = len(w.calls)
        ev0 = [len(p._events) for p in w.provs]
        for _ in range(3):
            for s in ("IL", "IR", "S"):
                w.step(s)
        muts = [c for c in w.calls[n0:] if c[2] in World.MUTATORS]
        if muts or [len(p._events) for p in w.provs] != ev0:
            vs.append(viol("echo", json.dumps(muts[:3], default=repr), {"calls": [list(map(str, c)) for c in muts[:5]]}))
        return obs, vs


DRIVER = D()


def jobs(tier):
    out = []
    cfgs = ["oo", "po"] if tier == "quick" else ["oo", "po", "ci", "pci", "pp", "op"]
    orders = ["asc"] if tier == "quick" else ["asc", "desc"]
    maxlen = 2 if tier == "quick" else 3
    for base, alpha in (("B1", A.UEXT), ("B0", B0_ALPHA), ("B2", B2_ALPHA)):
        n = maxlen if base == "B1" else 2
        hs = A.valid_histories(BASES[base], alpha, n)
        for cfg in cfgs:
            for order in orders:
                for i, h in enumerate(hs):
                    if len(h) == 3 and (order != "asc" or (i + len(cfg)) % 7):
                        continue        # length 3: every 7th history per flavour (fixed list), asc order only
                    k = None if len(h) <= 2 else 2
                    for sc in ([h, []], [[], h]):
                        out.append({"prop": PROP, "cfg": cfg, "order": order, "base": base, "scripts": A.stamp(sc),
                                    "mode": {"k": k, "cap": 2000, "depth": 60, "audit": 64 if tier == "quick" else 8}})
    # 3-operation chains on one object family
    chains = [h for h in A.valid_histories(BASES["B1"], A.UEXT, 3) if len(h) == 3 and A.related_chain(h)]
    # the same chains (all of them) in EVERY interleaving: a one-sided 3-op history has a small state graph (~200 states)
    for cfg in (["oo", "po"] if tier == "quick" else ["oo", "po", "pp", "op", "ci"]):
        for h in chains:
            for sc in ([h, []], [[], h]):
                out.append({"prop": PROP, "cfg": cfg, "order": "asc", "base": "B1", "scripts": A.stamp(sc), "schedule": "full",
                            "mode": {"k": None, "cap": 3000, "depth": 90, "audit": 0}})
    # accounts that report folder deletions without an object id (the event manager matches them by path): folder
    # histories incl. re-use of a deleted folder's name
    hs = [h for h in A.valid_histories(BASES["B4"], OT_ALPHA, 3) if any(op[0] == "delete" for op in h)]
    for i, h in enumerate(hs):
        if len(h) == 3 and tier == "quick" and i % 2:
            continue
        for sc in ([h, []], [[], h]):
            out.append({"prop": PROP, "cfg": "ot", "order": "asc", "base": "B4", "scripts": A.stamp(sc),
                        "mode": {"k": None if len(h) <= 2 else 2, "cap": 2000, "depth": 70, "audit": 0}})
    return out


OT_ALPHA = [["delete", "m"], ["mkdir", "m"], ["rename", "m", "n"], ["mkdir", "e"], ["delete", "e"], ["rename", "d", "x"],
            ["delete", "d/b"], ["delete", "d"], ["rename", "n", "m"], ["create", "m/f"]]
B0_ALPHA = [["create", "a"], ["mkdir", "d"], ["create", "d/b"], ["write", "a"], ["delete", "a"], ["rename", "a", "b"],
            ["rename", "d", "e"], ["mkdir", "d/e"], ["delete", "d"]]
B2_ALPHA = [["rename", "e", "m"], ["rename", "e/f", "f"], ["write", "e/f/g"], ["delete", "e/f/g"], ["delete", "e/f"],
            ["rename", "e/f/g", "g"], ["rename", "h", "e/f/h"], ["create", "e/c"], ["rename", "d", "e/d"]]


def run_job(job):
    out = run_explore(DRIVER, job)
    # how soon the engine gives up waiting and writes on the origin side is part of what that finding is (the unchanged tree
    # does it after five deferrals): the signature carries the length class of the shortest explored execution showing it
    for v in out["violations"]:
        if v["kind"] == "origin-written":
            n = v.get("min_steps", 99)
            v["sig"] += "@steps<=%d" % (6 if n <= 6 else 9 if n <= 9 else 13 if n <= 13 else 99)
    return out


def main(tier):
    rep = report.Report(PROP, tier,
                        rule="every one-sided history (<=2 ops quick, 3 ops with <=2 deviations thorough; every op valid on "
                             "the reference tree) from bases B0/B1/B2 in both directions, every interleaving with engine "
                             "steps; after every engine step no effective write on the origin side; at quiet state exact "
                             "mirror, no artefact, three further rounds issue no mutating call",
                        technique="explicit-state model checking of the implementation (exhaustive schedule exploration)")
    rep.add_results(report.pmap(__name__, jobs(tier), progress=500))
    return rep.finish()
