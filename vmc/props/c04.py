"""C04 non-conflicting concurrent changes merge exactly."""
import json
from .. import report, alphabet as A
from ..models import base_tree, Tree
from ..world import BASES, _show_tree, artefacts
from ..seqx import viol, digest
from .base import Driver, run_explore

PROP = "C04"

ALPHA = [
    ["write", "a"], ["delete", "a"], ["rename", "a", "c"], ["rename", "a", "d/a"],
    ["create", "d/c"], ["write", "d/b"], ["delete", "d/b"], ["rename", "d/b", "b"], ["rename", "d", "dx"], ["mkdir", "d/e"],
    ["rename", "e", "m"], ["rename", "e/f", "n"], ["write", "e/f/g"], ["delete", "e/f/g"], ["create", "e/c"],
    ["rename", "e/f/g", "g"],
    ["write", "h"], ["delete", "h"], ["rename", "h", "k"], ["rename", "h", "e/h"],
    ["create", "n1"], ["create", "n2"], ["mkdir", "m1"], ["mkdir", "m2"],
]


def reference(job):
    t = base_tree(BASES[job["base"]])
    ok = True
    for side in (0, 1):
        for op in job["scripts"][side]:
            ok = t.apply(op) and ok
    return t, ok


class D(Driver):
    prop = PROP

    def on_terminal(self, w):
        ref, ok = reference(w.job)
        obs = {"L": _show_tree(w.tree(0)), "R": _show_tree(w.tree(1))}
        vs = []
        want = _show_tree(ref.t)
        for side in (0, 1):
            if _show_tree(w.tree(side)) != want:
                d = {"want": want, "got": obs}
                vs.append(viol("merge-differs", digest(json.dumps(obs, sort_keys=True)), d))
                break
        return obs, vs


DRIVER = D()


def pairs(nl, nr):
    base = BASES["B2"]
    sl = A.valid_histories(base, ALPHA, nl)
    sl = [s for s in sl if len(s) == nl]
    sr = A.valid_histories(base, ALPHA, nr)
    sr = [s for s in sr if len(s) == nr]
    out = []
    for a in sl:
        for b in sr:
            if A.disjoint(a, b):
                # order-independence of the reference (asserted): apply in both orders
                t1 = base_tree(base)
                ok1 = all(t1.apply(op) for op in a + b)
                t2 = base_tree(base)
                ok2 = all(t2.apply(op) for op in b + a)
                if ok1 and ok2 and t1.t == t2.t:
                    out.append([a, b])
    return out


ORDERS = {"prompt": None, "lazy-remote-intake": ["IL", "S", "UL", "UR", "IR"], "lazy-local-intake": ["IR", "S", "UL", "UR", "IL"],
          "sync-last": ["IL", "IR", "UL", "UR", "S"]}


def chains():
    """longer one-side chains around a folder rename (edit child / rename folder / follow-up on the child at its new
    path, move it back to the old path) against one unrelated operation on the other side"""
    out = []
    for folder, new, child in (("d", "dx", "b"), ("e/f", "n", "g")):
        old_child = folder + "/" + child
        new_child = new + "/" + child
        firsts = [[["write", old_child]], [], [["create", folder + "/k"]]]
        follow = [[["delete", new_child]], [["write", new_child]], [["rename", new_child, "moved"]],
                  [["mkdir", folder], ["rename", new_child, old_child]]]
        for f in firsts:
            for g in follow:
                out.append(f + [["rename", folder, new]] + g)
    # rename cycles (two files swap names through a temporary name): the engine has to park one of them under a temporary
    # name of its own on the other side
    out.append([["rename", "a", "t"], ["rename", "h", "a"], ["rename", "t", "h"]])
    out.append([["rename", "a", "t"], ["rename", "d/b", "a"], ["rename", "t", "d/b"]])
    # replace by rename: a name is freed (deleted / moved away) and another synced file is renamed onto it
    out.append([["delete", "h"], ["rename", "a", "h"]])
    out.append([["delete", "d/b"], ["rename", "a", "d/b"]])
    out.append([["rename", "h", "k"], ["rename", "a", "h"]])
    # a synced file is moved into (out of) a folder and the folder is renamed straight afterwards: the child's pending move
    # must survive the re-basing of the folder's children (SyncState._update_kids)
    out.append([["rename", "a", "d/a"], ["rename", "d", "dx"]])
    out.append([["rename", "h", "e/f/h"], ["rename", "e", "m"]])
    out.append([["rename", "d/b", "b"], ["rename", "d", "dx"]])
    out.append([["rename", "e/f/g", "d/g"], ["rename", "d", "dx"]])
    return out


def jobs(tier):
    out = []
    cfgs = ["oo", "po"] if tier == "quick" else ["oo", "po", "ci", "pp", "op"]
    orders = ["asc"] if tier == "quick" else ["asc", "desc"]
    plist = [(p, None) for p in pairs(1, 1)]
    if tier != "quick":
        plist += [(p, 2) for p in pairs(2, 1)[::15]] + [(p, 2) for p in pairs(1, 2)[7::15]]
    for cfg in cfgs:
        for order in orders:
            for sc, k in plist:
                if k is not None and order != "asc":
                    continue
                out.append({"prop": PROP, "cfg": cfg, "order": order, "base": "B2", "scripts": A.stamp(sc),
                            "mode": {"k": k, "cap": 2500, "depth": 70, "audit": 64 if tier == "quick" else 8}})
    other = [["create", "n2"]] if tier == "quick" else [["create", "n2"], ["write", "h"], ["delete", "a"]]
    for cfg in (["oo", "po"] if tier == "quick" else ["oo", "po", "pp", "op"]):
        for ch in chains():
            for o in other:
                if not A.disjoint(ch, [o]):
                    continue            # (e.g. `delete a` against a cycle through a: not a non-conflicting pair)
                for oname, order in ORDERS.items():
                    if tier == "quick" and oname == "sync-last":
                        continue
                    for sc in ([ch, [o]], [[o], ch]):
                        mode = {"k": 1 if tier == "quick" else 2, "cap": 1500, "depth": 90, "audit": 0}
                        if order:
                            mode["order"] = order if sc[0] is ch else [{"IL": "IR", "IR": "IL"}.get(a, a) for a in order]
                        out.append({"prop": PROP, "cfg": cfg, "order": "asc", "base": "B2", "scripts": A.stamp(sc), "mode": mode,
                                    "schedule": oname})
    return out


def run_job(job):
    return run_explore(DRIVER, job)


def main(tier):
    rep = report.Report(PROP, tier,
                        rule="from base B2 every pair of per-side sequences (1+1 full; thorough adds every 15th of the 2+1/1+2 "
                             "pairs with <=2 deviations) whose named paths are disjoint under ancestry; every interleaving "
                             "with engine steps; at quiet state both trees equal the reference merge (dict tree model)",
                        technique="explicit-state model checking of the implementation against a reference merge model")
    rep.add_results(report.pmap(__name__, jobs(tier), progress=500))
    return rep.finish()
