"""C05 conflict-resolution contract."""
import json
from .. import report
from ..world import World, _show_tree, _is_conflicted, ENGINE
from ..seqx import viol, digest
from .base import Driver, run_explore
import cloudsync.exceptions as ex

PROP = "C05"

from .base import BEHAVIOURS, MERGED, resolver as _resolver

BIG_L = "L" * 3000
BIG_R = "R" * 3000
CONTENTS = {
    "equal": ("same", "same"),
    "both_empty": ("", ""),
    "one_empty": ("", "R1"),
    "distinct": ("L1", "R1"),
    "large": (BIG_L, BIG_R),
}


class D(Driver):
    prop = PROP

    def make_world(self, job):
        w = Driver.make_world(self, job)
        w.hooks["key"] = lambda w: (len(w.resolver_calls),)
        return w

    def expected(self, w):
        sl, sr = w.scripts
        p = sl[0][1]
        vl, vr = sl[0][2].encode(), sr[0][2].encode()
        b = w.opts["resolver"]
        if vl == vr:
            return {"calls": 0, "path": p, "content": vl, "artefact": None}
        b = {"local_drop_read": "local_drop", "remote_drop_read": "remote_drop", "merged_drop_written": "merged_drop"}.get(b, b)
        if b in ("local_keep", "local_drop"):
            return {"calls": 1, "path": p, "content": vl, "artefact": vr if b.endswith("keep") else None}
        if b in ("remote_keep", "remote_drop"):
            return {"calls": 1, "path": p, "content": vr, "artefact": vl if b.endswith("keep") else None}
        if b == "merged_drop":
            return {"calls": 1, "path": p, "content": MERGED, "artefact": None}
        return {"calls": 1, "path": p, "content": vr, "artefact": vl}       # none / raises / garbage: remote wins

    def on_terminal(self, w):
        e = self.expected(w)
        tl, tr = w.tree(0), w.tree(1)
        obs = {"L": _show_tree(tl), "R": _show_tree(tr), "calls": len(w.resolver_calls)}
        vs = []
        sl, sr = w.scripts
        vl, vr = sl[0][2].encode(), sr[0][2].encode()
        p = e["path"]
        if len(w.resolver_calls) != e["calls"]:
            vs.append(viol("resolver-call-count", "%d!=%d" % (len(w.resolver_calls), e["calls"]), obs))
        for rec in w.resolver_calls:
            sides = sorted(r[0] for r in rec)
            byside = {r[0]: r[2] for r in rec}
            if sides != [0, 1] or byside.get(0) != vl or byside.get(1) != vr:
                vs.append(viol("resolver-args", digest(repr(rec)), {"rec": [[r[0], r[1], r[2].decode("latin1")[:20]] for r in rec]}))
            vs.extend(stale_handles(rec))
        if tl.get(p) != e["content"] or tr.get(p) != e["content"]:
            vs.append(viol("winner", digest(json.dumps(obs, sort_keys=True)), obs))
        arts = {q: v for t in (tl, tr) for q, v in t.items() if _is_conflicted(q)}
        if e["artefact"] is None:
            if arts:
                vs.append(viol("unexpected-artefact", digest(json.dumps(obs, sort_keys=True)), obs))
        else:
            if e["artefact"] not in arts.values():
                vs.append(viol("artefact-missing", digest(json.dumps(obs, sort_keys=True)), obs))
        return obs, vs


def stale_handles(rec):
    """the bytes a handle yields must be the content that side holds when the resolver is called"""
    out = []
    for (side, path, data, actual, known, believed) in rec:
        # stale = neither what the side holds now nor what it held when its events were last taken in (the engine cannot
        # know about a change it has not been notified of yet)
        if actual is not None and data != actual and (known is None or data != known):
            # (the engine's recorded hash may itself be out of date - G13 - or be current while an older download is re-used)
            out.append(viol("resolver-handle-stale", "%s:%s:%s" % ("LR"[side], digest(repr((data[:30], actual[:30]))),
                                                                   "hash-current" if believed else "hash-outdated"),
                            {"side": side, "engine_hash_is_current": believed, "handle_bytes": data.decode("latin1")[:40], "side_holds": actual.decode("latin1")[:40]}))
    return out


class DLate(Driver):
    """a side is edited again while the first attempt to sync it is still unfinished: no fixed outcome table, but the
    resolver must be handed the current contents, and the run must go quiet"""
    prop = PROP

    def make_world(self, job):
        w = Driver.make_world(self, job)
        w.hooks["key"] = lambda w: (len(w.resolver_calls), tuple(sorted((s, k, v) for s in (0, 1)
                                                                      for k, v in w.intake_snapshot[s].items())))
        w.seen_calls = 0
        w.intake_snapshot = ({}, {})
        orig_step = w.step

        def step(which):
            orig_step(which)
            if which in ("IL", "IR"):       # part of the world's own transition (also during replays)
                side = 0 if which == "IL" else 1
                for k, o in w.provs[side]._mock_fs._objects.items():
                    if k.startswith("/") and o.exists and o.contents is not None:
                        w.intake_snapshot[side][o.oid] = o.contents
        w.step = step
        return w

    def on_step(self, w, a, pre):
        vs = []
        for rec in w.resolver_calls[w.seen_calls:]:
            vs.extend(stale_handles(rec))
        w.seen_calls = len(w.resolver_calls)
        return vs

    def on_terminal(self, w):
        return self.observe(w), []


DRIVER = D()
DRIVER_LATE = DLate()


def jobs(tier):
    out = []
    cfgs = ["oo", "po"] if tier == "quick" else ["oo", "po", "ci", "pp", "op"]
    orders = ["asc"] if tier == "quick" else ["asc", "desc"]
    for cfg in cfgs:
        for order in orders:
            for shape in ("create", "write"):
                path = "c" if shape == "create" else "a"
                for cname, (cl, cr) in CONTENTS.items():
                    if tier == "quick" and cname == "large" and shape == "create":
                        continue
                    for b in BEHAVIOURS:
                        if b == "merged_keep":
                            continue    # outcome not defined by the statement; its non-termination is checked under C01
                        for per_event in ([False] if tier == "quick" else [False, True]):
                            opts = {"resolver": b, "users_first": True}
                            if per_event:
                                opts["per_event"] = True
                            out.append({"prop": PROP, "cfg": cfg, "order": order, "base": "B1",
                                        "scripts": [[[shape, path, cl]], [[shape, path, cr]]], "opts": opts,
                                        "mode": {"k": None, "cap": 1200, "depth": 60,
                                                 "audit": 64 if tier == "quick" else 8}})
    # the two accounts use different content-hash functions: equal bytes must still be recognised as equal (no resolver call)
    for cfg in cfgs:
        for shape in ("create", "write"):
            path = "c" if shape == "create" else "a"
            for cname in ("equal", "both_empty", "distinct"):
                cl, cr = CONTENTS[cname]
                for b in ("none", "local_keep", "remote_drop"):
                    out.append({"prop": PROP, "cfg": cfg, "order": "asc", "base": "B1",
                                "scripts": [[[shape, path, cl]], [[shape, path, cr]]],
                                "opts": {"resolver": b, "users_first": True, "remote_hash": "sha256"},
                                "mode": {"k": None, "cap": 1200, "depth": 60, "audit": 0}})
    # a third operation re-edits one side while the conflict is still being worked on (all interleavings, engine may start early)
    for cfg in cfgs:
        for shape, path in (("create", "c"), ("write", "a")):
            for b in ("local_drop", "remote_drop", "local_keep", "none"):
                for late_side in (0, 1):
                    sc = [[[shape, path, "L1"]], [[shape, path, "R1"]]]
                    sc[late_side].append(["write", path, "LR"[late_side] + "2-later"])
                    out.append({"prop": PROP, "cfg": cfg, "order": "asc", "base": "B1", "scripts": sc, "late": True,
                                "opts": {"resolver": b}, "mode": {"k": None, "cap": 2500, "depth": 70, "audit": 0}})
    return out


def run_job(job):
    if job.get("late"):
        return run_explore(DRIVER_LATE, job, liveness_fallback=True)
    out = run_explore(DRIVER, job, liveness_fallback=True)
    # schedule independence: the set of terminal observations of a job must be a singleton
    if len(out["outcomes"]) > 1 and not out["capped"]:
        out["violations"].append({"kind": "schedule-dependent", "sig": digest(json.dumps(sorted(out["outcomes"]))),
                                  "detail": {"outcomes": [json.loads(o) for o in sorted(out["outcomes"])][:4]},
                                  "hist": []})
    return out


def main(tier):
    rep = report.Report(PROP, tier,
                        rule="conflict shape {create/create, edit/edit} x content pair {equal, both empty, one empty, distinct, "
                             "3000-byte} x 11 resolver behaviours; both user operations first (both orders), then every "
                             "interleaving of engine steps; outcome table of the statement, resolver call count/arguments, "
                             "and singleton terminal observation per job (schedule independence)",
                        technique="explicit-state model checking of the implementation (exhaustive schedule exploration)")
    rep.add_results(report.pmap(__name__, jobs(tier), progress=200))
    return rep.finish()
