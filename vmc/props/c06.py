"""C06 restart resumes from persisted state; offline changes are synchronised (E1 + restart enumeration)."""
import json

from .. import report, alphabet as A
from ..world import World, BASES, NoQuiescence, _show_tree
from ..seqx import viol, digest, job_id
from .base import Driver
from . import products as P

PROP = "C06"
MODES = ("intact", "nocursor", "badcursor", "dropconn")
# schedules tried after the restart (intact mode): fair round robin, and sync loop first (events taken in late)
RESTART_ORDERS = (("IL", "IR", "S"), ("S", "S", "IL", "IR"))


class D(Driver):
    prop = PROP

    def make_world(self, job):
        w = World(job)
        P.install_spurious_hook(w)
        return w


DRIVER = D()


def histories():
    one = A.valid_histories(BASES["B1"], A.UEXT, 2)
    single = [h for h in one if len(h) == 1]
    hs = [[h, []] for h in one] + [[[], h] for h in one]
    hs += [[a, b] for a in single for b in single if A.disjoint(a, b)]
    return hs


def jobs(tier):
    out = []
    cfgs = ["oo", "po"] if tier == "quick" else ["oo", "po", "ci", "pp", "op"]
    hs = histories()
    for cfg in cfgs:
        for i, sc in enumerate(hs):
            if tier == "quick" and len(sc[0]) + len(sc[1]) == 2 and i % 2:
                continue
            for uf in (False, True):
                opts = {"storage": True}
                if uf:
                    opts["users_first"] = True
                out.append({"prop": PROP, "cfg": cfg, "order": "asc", "base": "B1", "scripts": A.stamp(sc), "opts": opts})
    # case-insensitive flavours with case-only renames (the walk fallback compares stored and walked paths)
    case_hists = [[[["rename", "a", "A"]], []], [[], [["rename", "a", "A"]]], [[["rename", "d", "D"]], []],
                  [[["rename", "d/b", "d/B"]], []], [[], [["rename", "d/b", "d/B"]]], [[["rename", "a", "A"], ["write", "A"]], []],
                  [[["write", "a"], ["rename", "a", "A"]], []]]
    for cfg in ("ci", "pci"):
        for sc in case_hists:
            for uf in (False, True):
                opts = {"storage": True}
                if uf:
                    opts["users_first"] = True
                out.append({"prop": PROP, "cfg": cfg, "order": "asc", "base": "B1", "scripts": A.stamp(sc), "opts": opts})
    # first-ever start: the tree exists on one side before any engine has run; stop at every boundary of that first
    # synchronisation (initial walk done or not, first cursor stored or not), restart in the three modes
    for cfg in cfgs:
        for base_side in (0, 1):
            for sc in ([[], []], [[["create", "c"]], []], [[], [["create", "c"]]], [[["write", "a"]], []], [[], [["delete", "d/b"]]]):
                if sc[1 - base_side] and sc[1 - base_side][0][0] != "create":
                    continue
                out.append({"prop": PROP, "cfg": cfg, "order": "asc", "base": "B1", "scripts": A.stamp(sc),
                            "opts": {"storage": True, "unsynced_base": True, "base_side": base_side, "check_base": False}})
    return out


def _contains(tree, ref, fold=False):
    if fold:
        tree = {p.lower(): v for p, v in tree.items()}
        ref = {p.lower(): v for p, v in ref.items()}
    return all(p in tree and tree[p] == v for p, v in ref.items())


def run_job(job):
    drv = DRIVER
    vs = {}
    n_eval = 0
    states = 0
    gated = 0
    # a path-addressed, case-insensitive account cannot tell a case-only rename from "same object": after a walk the peer
    # may keep the old spelling; the walk clause only promises created/modified objects reach the peer (DESIGN 10.3)
    from ..world import CFGS
    fold = any(c[0] and not c[1] for c in CFGS[job["cfg"]])
    # base run (undisturbed, same schedule)
    w = drv.make_world(job)
    try:
        try:
            hist = w.prompt_run()
        except NoQuiescence:
            return _result(job, 0, 0, 1, {}, "base-noquiesce", [])
        base = P.judge(w)
        base_spur = len(w.spurious)
    finally:
        w.close()
    ref = {p: v for p, v in P.reference_tree(job).t.items()}
    if not base["converged"] or base["lost"]:
        return _result(job, 1, len(hist), 1, {}, "base-fails (see C01/C02)", hist)
    for i in range(len(hist) + 1):
        for mode, order in [(m, o) for m in MODES for o in (RESTART_ORDERS if m == "intact" else RESTART_ORDERS[:1])]:
            w = drv.make_world(job)
            try:
                for a in hist[:i]:
                    w.act(a)
                w.stop_engine()
                P.remaining_user_ops(w)
                mark = len(w.spurious)
                w.restart(mode)
                states += i + 1
                n_eval += 1
                bad = None
                try:
                    w.settle(limit=150, order=order)
                except NoQuiescence:
                    bad = ("noquiesce", {})
                if bad is None:
                    j = P.judge(w)
                    if j["busy"] and not base.get("busy"):
                        bad = ("busy", {"pending": j["busy"]})
                    elif mode in ("intact", "dropconn"):
                        if not j["converged"]:
                            bad = ("diverge", j["trees"])
                        elif j["lost"]:
                            bad = ("lost:" + ",".join(j["lost"]), j["trees"])
                        elif [a for a in j["artefacts"] if a not in base["artefacts"]]:
                            bad = ("artefact", j["trees"])
                        elif base_spur == 0 and w.spurious[mark:]:
                            bad = ("spurious-transfer", {"calls": [list(map(str, x)) for x in w.spurious[mark:][:3]]})
                    else:
                        tl, tr = w.tree(0), w.tree(1)
                        if j["lost"]:
                            bad = ("lost:" + ",".join(j["lost"]), j["trees"])
                        elif not (_contains(tl, ref, fold) and _contains(tr, ref, fold)):
                            bad = ("not-propagated", j["trees"])
                if bad is not None:
                    sig = "%s:%s:%s" % (mode, bad[0], digest(json.dumps(bad[1], sort_keys=True, default=repr)))
                    if sig not in vs:
                        vs[sig] = viol("restart-" + bad[0].split(":")[0], sig,
                                       {"mode": mode, "boundary": i, "base_hist": hist, "observed": bad[1]})
                        vs[sig]["hist"] = hist[:i] + ["STOP", "OFFLINE-USER-OPS", "RESTART(%s)" % mode, "SETTLE"]
            finally:
                w.close()
    # ---- a stop request that lands INSIDE an intake step: before the k-th event of the batch is handed over
    counts = _event_counts(drv, job, hist)
    for i, n_ev in counts.items():
        side = 0 if hist[i] == "IL" else 1
        for k in range(min(n_ev, 4)):
            for order in RESTART_ORDERS:
                w = drv.make_world(job)
                try:
                    for a in hist[:i]:
                        w.act(a)
                    p_ = w.provs[side]
                    inner = p_.events
                    mgr = w.mgrs[hist[i]]

                    def hooked(_inner=inner, _k=k, _mgr=mgr):
                        j = 0
                        for ev in _inner():
                            if j == _k:
                                _mgr.stop(forever=True, wait=False)
                            j += 1
                            yield ev
                    p_.events = hooked
                    try:
                        w.act(hist[i])
                    finally:
                        p_.events = inner
                    w.stop_engine()
                    P.remaining_user_ops(w)
                    mark = len(w.spurious)
                    w.restart("intact")
                    states += i + 2
                    n_eval += 1
                    bad = None
                    try:
                        w.settle(limit=150, order=order)
                    except NoQuiescence:
                        bad = ("noquiesce", {})
                    if bad is None:
                        j = P.judge(w)
                        if j["busy"] and not base.get("busy"):
                            bad = ("busy", {"pending": j["busy"]})
                        elif not j["converged"]:
                            bad = ("diverge", j["trees"])
                        elif j["lost"]:
                            bad = ("lost:" + ",".join(j["lost"]), j["trees"])
                        elif [a for a in j["artefacts"] if a not in base["artefacts"]]:
                            bad = ("artefact", j["trees"])
                    if bad is not None:
                        sig = "midstep:%s:%s" % (bad[0], digest(json.dumps(bad[1], sort_keys=True, default=repr)))
                        if sig not in vs:
                            vs[sig] = viol("restart-" + bad[0].split(":")[0], sig,
                                           {"mode": "intact", "boundary": i, "stop_before_event": k, "base_hist": hist,
                                            "observed": bad[1]})
                            vs[sig]["hist"] = hist[:i] + ["%s(stop requested before event %d)" % (hist[i], k), "OFFLINE-USER-OPS",
                                                          "RESTART(intact)", "SETTLE"]
                finally:
                    w.close()
    return _result(job, n_eval, states, 0, vs, None, hist)


def _event_counts(drv, job, hist):
    """number of events each intake step of the base run took in"""
    out = {}
    w = drv.make_world(job)
    try:
        cnt = [0]
        for s_ in (0, 1):
            inner = w.provs[s_].events

            def counting(_inner=inner):
                for ev in _inner():
                    cnt[0] += 1
                    yield ev
            w.provs[s_].events = counting
        for i, a in enumerate(hist):
            cnt[0] = 0
            w.act(a)
            if a in ("IL", "IR") and cnt[0]:
                out[i] = cnt[0]
    finally:
        w.close()
    return out


def _result(job, n_eval, states, gated, vs, note, hist):
    return {"states": max(states, 1), "transitions": max(states, 1), "evaluations": n_eval, "traces": n_eval,
            "nontrivial": n_eval, "terminals": n_eval, "capped": False, "violations": list(vs.values()),
            "outcomes": [], "sample": {"job": job_id(job), "base_hist": hist, "note": note},
            "extra": {"base_runs_gated_out": gated, "base_runs": 1}}


def main(tier):
    rep = report.Report(PROP, tier,
                        rule="base runs = prompt-schedule and users-first executions of one-sided histories (<=2 ops) and disjoint "
                             "1+1 histories on a DictStorage; for EVERY step boundary of each base run: drop the engine, apply the "
                             "not yet executed user operations while it is down, start a new engine over the same storage and "
                             "accounts in each of 3 modes (intact, cursor rows removed, cursor rows replaced by a value the provider "
                             "rejects), run to quiescence; judged only if the undisturbed run satisfies the same oracle. "
                             "evaluations = (boundary, mode) pairs; states/transitions = engine steps replayed",
                        technique="exhaustive enumeration of stop points x restart modes on explored executions of the "
                                  "implementation (model checking by fault/stop-point enumeration)")
    rep.add_results(report.pmap(__name__, jobs(tier), progress=500))
    return rep.finish()


def replay(path):
    d = json.load(open(path))
    job = d["job"]
    det = d["detail"]
    w = DRIVER.make_world(job)
    try:
        for a in det["base_hist"][:det["boundary"]]:
            w.act(a)
            print(a, json.dumps(w.describe()["tree_local"]), json.dumps(w.describe()["tree_remote"]))
        w.stop_engine()
        P.remaining_user_ops(w)
        print("stopped; offline user ops done:", json.dumps(w.describe()["tree_local"]), json.dumps(w.describe()["tree_remote"]))
        w.restart(det["mode"])
        try:
            w.settle(limit=150)
            j = P.judge(w)
            print("after restart(%s)+settle:" % det["mode"], json.dumps(j, default=repr))
        except NoQuiescence as e:
            print("no quiescence", e)
    finally:
        w.close()
    r = run_job(job)
    hit = [v for v in r["violations"] if v["sig"] == d["sig"]]
    print("reproduced" if hit else "not reproduced")
    return 1 if hit else 0
