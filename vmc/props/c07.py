"""C07 crash consistency: dying before any storage write / after any provider write loses nothing."""
import json

from .. import report, alphabet as A
from ..world import World, BASES, NoQuiescence, Crash, _show_tree
from ..seqx import viol, digest, job_id
from .base import Driver
from . import products as P
from .c06 import histories

PROP = "C07"
# schedules tried after the restart: fair round robin, sync loop first (events taken in late), remote events first
RESTART_ORDERS = (("IL", "IR", "S"), ("S", "S", "IL", "IR"), ("IR", "S", "IL", "S"))


class D(Driver):
    prop = PROP

    def make_world(self, job):
        w = World(job)
        P.install_spurious_hook(w)
        w.nsw = 0       # storage writes seen (after the base tree was synchronised)
        w.npw = 0       # effective engine provider writes seen
        w.plan = None   # ("storage", k) crash BEFORE the k-th storage write | ("provider", k) crash AFTER the k-th write

        def gate(kind, tag, eid):
            if w.dead:
                raise Crash()
            w.nsw += 1
            if w.plan and w.plan[0] == "storage" and w.nsw == w.plan[1]:
                w.dead = True
                raise Crash()
        w.storage.gate = gate

        def after_write(world, side, name, a, ret):
            world.npw += 1
            if world.plan and world.plan[0] == "provider" and world.npw == world.plan[1]:
                world.dead = True
                raise Crash()
        w.hooks["after_write"] = after_write
        return w


DRIVER = D()


def jobs(tier):
    out = []
    cfgs = ["oo", "po", "op", "pp"] if tier == "quick" else ["oo", "po", "op", "pp", "ci", "pci"]
    hs = histories()
    for cfg in cfgs:
        for i, sc in enumerate(hs):
            if tier == "quick" and len(sc[0]) + len(sc[1]) == 2 and i % 2 == 0:
                continue
            for uf in ((False,) if tier == "quick" else (False, True)):
                opts = {"storage": True, "raw_do": True}
                if uf:
                    opts["users_first"] = True
                out.append({"prop": PROP, "cfg": cfg, "order": "asc", "base": "B1", "scripts": A.stamp(sc), "opts": opts})
    # objects moving across the root boundary (an entry the engine holds as irrelevant becomes relevant and vice versa)
    from .c12 import OUTSIDE
    for cfg in (["oo", "of"] if tier == "quick" else ["oo", "of", "po", "pp"]):
        for sc in ([[["rename", "/other/x", "x"], ["create", "c"]], []], [[], [["rename", "/other/x", "x"], ["create", "c"]]],
                   [[["rename", "/other/x", "x"]], [["create", "c"]]], [[["rename", "a", "/other/a"], ["create", "c"]], []],
                   [[["rename", "/other/sub", "sub"], ["write", "a"]], []]):
            for po in (None, ["IL", "IR", "UL", "UR", "S"]):      # (second schedule: events are taken in eagerly, syncing lags)
                opts = {"storage": True, "raw_do": True, "outside": OUTSIDE}
                if po:
                    opts["prompt_order"] = po
                out.append({"prop": PROP, "cfg": cfg, "order": "asc", "base": "B1", "scripts": A.stamp(sc), "opts": opts})
    # first-ever start: the tree exists on one side before the engine has run (initial walk, first cursor, first rows);
    # every storage write / provider write of that first synchronisation is a crash instant
    for cfg in cfgs:
        for base_side in (0, 1):
            for sc in ([[], []], [[["create", "c"]], []], [[], [["create", "c"]]], [[["write", "a"]], []], [[], [["delete", "d/b"]]]):
                if sc[1 - base_side] and sc[1 - base_side][0][0] != "create":
                    continue        # the other side has no tree yet: only creations make sense there
                out.append({"prop": PROP, "cfg": cfg, "order": "asc", "base": "B1", "scripts": A.stamp(sc),
                            "opts": {"storage": True, "raw_do": True, "unsynced_base": True, "base_side": base_side,
                                     "check_base": False}})
    return out


def _run_until_crash(w, hist):
    """returns index of the action during which the process died, or None"""
    for i, a in enumerate(hist):
        try:
            w.act(a)
        except Crash:
            return i
    return None


def run_job(job):
    drv = DRIVER
    vs = {}
    n_eval = 0
    steps = 0
    w = drv.make_world(job)
    try:
        w.nsw = w.npw = 0
        try:
            hist = w.prompt_run()
        except NoQuiescence:
            return _result(job, 0, 0, 1, {}, "base-noquiesce", [])
        base = P.judge(w)
        W_s, W_p = w.nsw, w.npw
        base_spur = len(w.spurious)
    finally:
        w.close()
    if not base["converged"] or base["lost"]:
        return _result(job, 1, len(hist), 1, {}, "base-fails (see C01/C02)", hist)
    one_sided = not (job["scripts"][0] and job["scripts"][1])
    plans = [("storage", k) for k in range(1, W_s + 1)] + [("provider", k) for k in range(1, W_p + 1)]
    plans = [(kind, k, order) for (kind, k) in plans for order in RESTART_ORDERS]
    for plan3 in plans:
        plan, order = plan3[:2], plan3[2]
        w = drv.make_world(job)
        try:
            w.nsw = w.npw = 0
            w.plan = plan
            at = _run_until_crash(w, hist)
            n_eval += 1
            steps += (at if at is not None else len(hist)) + 1
            if at is None:
                # schedule-independent count mismatch would be a determinism problem
                vs.setdefault("plan-not-reached", viol("harness-plan-not-reached", "%s:%d" % plan, {"plan": list(plan)}))
                continue
            w.plan = None
            w.stop_engine()
            P.remaining_user_ops(w)
            w.restart("intact")
            bad = None
            try:
                w.settle(limit=150, order=order)
            except NoQuiescence:
                bad = ("noquiesce", {})
            if bad is None:
                j = P.judge(w)
                if j["busy"] and not base.get("busy"):
                    bad = ("busy", {"pending": j["busy"]})
                elif not j["converged"]:
                    bad = ("diverge", j["trees"])
                elif j["lost"]:
                    bad = ("lost:" + ",".join(j["lost"]), j["trees"])
                elif one_sided and [a for a in j["artefacts"] if a not in base["artefacts"]]:
                    bad = ("artefact", j["trees"])
            if bad is not None:
                sig = "%s:%s:%s" % (plan[0], bad[0], digest(json.dumps(bad[1], sort_keys=True, default=repr)))
                if sig not in vs:
                    vs[sig] = viol("crash-" + bad[0].split(":")[0], sig,
                                   {"plan": list(plan), "died_in_action": at, "base_hist": hist, "observed": bad[1],
                                    "restart_order": list(order)})
                    vs[sig]["hist"] = hist[:at + 1] + ["CRASH(%s #%d)" % plan, "OFFLINE-USER-OPS", "RESTART",
                                                      "SETTLE(%s)" % ",".join(order)]
        finally:
            w.close()
    vs.pop("plan-not-reached", None) if False else None
    return _result(job, n_eval, steps, 0, vs, None, hist, extra={"storage_writes": W_s, "provider_writes": W_p})


def _result(job, n_eval, states, gated, vs, note, hist, extra=None):
    ex = {"base_runs_gated_out": gated, "base_runs": 1}
    ex.update(extra or {})
    return {"states": max(states, 1), "transitions": max(states, 1), "evaluations": n_eval, "traces": n_eval,
            "nontrivial": n_eval, "terminals": n_eval, "capped": False, "violations": list(vs.values()),
            "outcomes": [], "sample": {"job": job_id(job), "base_hist": hist, "note": note}, "extra": ex}


def main(tier):
    rep = report.Report(PROP, tier,
                        rule="base runs = prompt-schedule executions (thorough: also users-first) of one-sided (<=2 ops) and disjoint "
                             "1+1 histories on a DictStorage; within each run EVERY storage create/update/delete call is taken as "
                             "a crash instant (die before the write) and EVERY effective engine provider write as a crash instant "
                             "(die right after it); after death all further writes are refused; users finish their scripts, a "
                             "new engine starts over the storage and provider contents of that instant and runs to quiescence; "
                             "judged only if the undisturbed run satisfies the oracle. evaluations = crash instants",
                        technique="exhaustive crash-point enumeration on explored executions of the implementation")
    rep.add_results(report.pmap(__name__, jobs(tier), progress=500))
    return rep.finish()


def replay(path):
    d = json.load(open(path))
    r = run_job(d["job"])
    hit = [v for v in r["violations"] if v["sig"] == d["sig"]]
    print(json.dumps(d["detail"], indent=1, default=repr))
    print("reproduced" if hit else "not reproduced")
    return 1 if hit else 0
