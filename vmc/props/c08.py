"""C08 persisted state == in-memory state after every step; codec round trip (E1 monitor + E4)."""
import collections
import itertools
import msgpack

from .. import env
from .. import report, alphabet as A
from ..seqx import viol
from ..world import World, DictStorage
from .base import Driver, run_explore
from cloudsync.sync.state import SyncState, SyncEntry, Exists
from cloudsync import FILE, DIRECTORY, LOCAL, REMOTE
from cloudsync.types import IgnoreReason, OType
from cloudsync.providers.mock import MockProvider

PROP = "C08"
FIELDS = ("otype", "hash", "sync_hash", "path", "sync_path", "oid", "exists", "size", "mtime")


def sig(e):
    row = []
    for s in (0, 1):
        for f in FIELDS:
            row.append(getattr(e[s], "_" + f))
        row.append(bool(e[s]._changed))
        row.append(e[s]._saved_exists)
    row.append(e._ignored)
    return repr(row)


def check_storage(w):
    st = w.cs.state
    tag = st._tag
    sto = w.storage
    rows = sto.read_all(tag)
    errs = []
    live = set(st._oids[0].values()) | set(st._oids[1].values()) | set(st._changeset_storage)
    if st._dirtyset:
        errs.append(("dirty-left", {"n": len(st._dirtyset)}))
    byid = {}
    for e in live:
        if e.is_trash:
            continue
        if e.storage_id is None:
            errs.append(("live-entry-without-row", {"entry": str(e)[:200]}))
            continue
        byid[e.storage_id] = e
        if e.storage_id not in rows:
            errs.append(("row-missing", {"entry": str(e)[:200]}))
            continue
        if rows[e.storage_id] != e.serialize():
            a = msgpack.loads(rows[e.storage_id], raw=False)
            b = msgpack.loads(e.serialize(), raw=False)
            diff = [(k, f) for k in ("side0", "side1") for f in a[k] if a[k][f] != b[k][f]]
            diff += [(k,) for k in ("ignored", "priority") if a.get(k) != b.get(k)]
            diff = [d for d in diff if d != ("priority",)]
            if diff:
                errs.append(("row-stale:" + ",".join(sorted({d[-1] for d in diff})), {"diff": [list(d) for d in diff][:6],
                                                                                    "entry": str(e)[:160]}))
    for sid in rows:
        if sid not in byid:
            errs.append(("stale-row", {"row": str(msgpack.loads(rows[sid], raw=False))[:200]}))
    # reload equivalence
    env.install(w.clock, w.ctr)
    snap = DictStorage(*sto.snapshot())
    st2 = SyncState(st.providers, snap, tag)
    a = collections.Counter(sig(e) for e in (set(st._oids[0].values()) | set(st._oids[1].values())) if not e.is_trash)
    b = collections.Counter(sig(e) for e in (set(st2._oids[0].values()) | set(st2._oids[1].values())) if not e.is_trash)
    if a != b:
        errs.append(("reload-differs", {"only_live": list((a - b).elements())[:1], "only_reloaded": list((b - a).elements())[:1]}))
    pa = collections.Counter(sig(e) for e in st._changeset_storage if not e.is_trash)
    pb = collections.Counter(sig(e) for e in st2._changeset_storage if not e.is_trash)
    if pa != pb:
        errs.append(("reload-pending-differs", {"only_live": list((pa - pb).elements())[:1],
                                                "only_reloaded": list((pb - pa).elements())[:1]}))
    for s in (0, 1):
        for oid, e in st._oids[s].items():
            e2 = st2.lookup_oid(s, oid)
            if e.is_trash:
                continue
            if e2 is None or sig(e2) != sig(e):
                errs.append(("reload-lookup-oid", {"side": s, "oid": oid}))
        for path in st._paths[s]:
            l1 = sorted(sig(e) for e in st.lookup_path(s, path))
            l2 = sorted(sig(e) for e in st2.lookup_path(s, path))
            if l1 != l2:
                errs.append(("reload-lookup-path", {"side": s, "path": path}))
    return errs


class Mon(Driver):
    prop = PROP

    def make_world(self, job):
        w = Driver.make_world(self, job)
        ef = job.get("evfault")
        w.evfault_fired = 0
        if ef:
            # the provider's change feed fails after handing over `after` events of a batch (rate limit while paging): once
            import cloudsync.exceptions as _ex
            p = w.provs[ef["side"]]
            inner = p.events

            def events():
                n = 0
                for ev in inner():
                    if not w.evfault_fired and n == ef["after"]:
                        w.evfault_fired = 1
                        raise _ex.CloudTemporaryError("change feed interrupted")
                    n += 1
                    yield ev
            p.events = events
            w.hooks["key"] = lambda world: (world.evfault_fired,)
        sf = job.get("stfault")
        w.stfault = [0, 0, 0]           # storage writes seen, fault fired, engine steps completed since it fired
        if sf is not None:
            # ONE storage write fails (database locked / disk full), then storage works again
            def gate(kind, tag, eid):
                if w.stfault[1]:
                    return
                if w.stfault[0] == sf["at"]:
                    w.stfault[1] = 1
                    w.stfault[2] = -1
                    raise OSError("storage write failed (transient)")
                w.stfault[0] += 1
            w.storage.gate = gate
            w.hooks["key"] = lambda world: tuple(world.stfault)
            inner_step = w.step

            def step(which):            # (kept in the world, not in on_step: replays do not run monitors)
                fired = w.stfault[1]
                try:
                    return inner_step(which)
                finally:
                    if fired and which == "S":
                        w.stfault[2] = min(w.stfault[2] + 1, 2)
                    elif not fired and w.stfault[1]:
                        w.stfault[2] = 0
            w.step = step
        return w

    def on_step(self, w, a, pre):
        if a not in ("IL", "IR", "S"):
            return []
        if w.stfault[1]:
            # the failed write is retried by a later commit: storage is judged again once a sync step that started after
            # the failure has completed (the failing step itself, and intake steps that commit nothing, are not judged)
            if w.stfault[2] < 1:
                return []
        return [viol(n, a, d) for n, d in check_storage(w)[:3]]

    def on_terminal(self, w):
        return self.observe(w), []


DRIVER = Mon()


def jobs(tier):
    from .c01 import histories
    hs = histories()
    out = []
    cfgs = ["oo"] if tier == "quick" else ["oo", "po", "ci", "pp"]
    for cfg in cfgs:
        for i, sc in enumerate(hs):
            out.append({"prop": PROP, "cfg": cfg, "order": "asc", "base": "B1", "scripts": A.stamp(sc),
                        "opts": {"storage": True},
                        "mode": {"k": None, "cap": 800 if tier == "quick" else 3000, "depth": 50, "audit": 0}})
    # an intake batch that is cut short by a provider error after 1 or 2 events (users first: several events per batch)
    for cfg in (["oo", "po"] if tier == "quick" else ["oo", "po", "pp"]):
        for side in (0, 1):
            sc = [[], []]
            sc[side] = [["create", "c"], ["mkdir", "e"], ["write", "a"]]
            for after in (1, 2):
                out.append({"prop": PROP, "cfg": cfg, "order": "asc", "base": "B1", "scripts": A.stamp(sc),
                            "opts": {"storage": True, "users_first": True}, "evfault": {"side": side, "after": after},
                            "mode": {"k": None, "cap": 1500, "depth": 60, "audit": 0}})
    # one transient storage write failure at the k-th write of the history (multi-entry commits: folder rename re-paths kids)
    for cfg in (["oo", "po"] if tier == "quick" else ["oo", "po", "pp"]):
        for sc in ([[["rename", "d", "e"]], []], [[], [["rename", "d", "e"]]], [[["create", "c"], ["write", "a"]], []],
                   [[["mkdir", "e"], ["create", "e/c"]], []]):
            for at in range(6 if tier == "quick" else 10):
                out.append({"prop": PROP, "cfg": cfg, "order": "asc", "base": "B1", "scripts": A.stamp(sc),
                            "opts": {"storage": True, "users_first": True}, "stfault": {"at": at},
                            "mode": {"k": None, "cap": 1500, "depth": 60, "audit": 0}})
    if tier == "quick":
        # a slice of the path-id flavour as well
        for i, sc in enumerate(hs):
            if i % 4 == 0:
                out.append({"prop": PROP, "cfg": "po", "order": "asc", "base": "B1", "scripts": A.stamp(sc),
                            "opts": {"storage": True}, "mode": {"k": None, "cap": 800, "depth": 50, "audit": 0}})
    return out


def run_job(job):
    if job.get("codec") == "datarows":
        return run_datarows(job)
    if job.get("codec"):
        return run_codec(job)
    return run_explore(DRIVER, job)


# ------------------------------------------------------------------------------------------------ codec (E4)
HASHES = [None, b"\x00\xff", "str-hash", 17, (b"a", (b"b", 3)), {"k": b"v"}]
PATHS = [None, "/a", "/ü/é x", "/d\\b"]
OIDS = [None, "o1", 42]
EXISTS = list(Exists)
IGNORES = list(IgnoreReason)
CHANGED = [None, 0, 1234.5]
SIZES = [None, 7, 7.5]


def _state():
    env.install(env.Clock(), env.Counters())
    l, r = MockProvider(False, True), MockProvider(False, True)
    return SyncState((l, r), shuffle=False)


def _norm(v):
    # msgpack turns tuples into tuples again (use_list=False) and dict stays dict
    return v


def run_codec(job):
    st = _state()
    vs = {}
    n = 0
    part = job["codec"]
    if part == "fields":
        i0 = job["i"]
        for hi, h in enumerate(HASHES):
            if hi != i0:
                continue
            for path, oid, ex_, sx, ign, ch, sz in itertools.product(PATHS, OIDS, EXISTS, [None] + EXISTS[:3], IGNORES, CHANGED,
                                                                    SIZES):
                n += 1
                e = SyncEntry(st, FILE)
                st._loading = True      # plain field fill, no index maintenance (that is C11's business)
                try:
                    for s, (hh, pp) in enumerate(((h, path), (HASHES[(hi + 1) % len(HASHES)], "/other"))):
                        ss = e[s]
                        ss._hash, ss._sync_hash = hh, hh
                        ss._path, ss._sync_path = pp, pp
                        ss._oid = oid
                        ss._exists = ex_
                        ss._saved_exists = sx
                        ss._changed = ch
                        ss._size, ss._mtime = sz, sz
                    e._ignored = ign
                finally:
                    st._loading = False
                try:
                    blob = e.serialize()
                    st._loading = True
                    e2 = SyncEntry(st, None, (5, blob))
                    st._loading = False
                except Exception as x:
                    st._loading = False
                    vs.setdefault(("codec-raises", type(x).__name__), {"hash": repr(h), "error": repr(x)[:160]})
                    continue
                for s in (0, 1):
                    for f in ("otype", "hash", "sync_hash", "path", "sync_path", "oid", "changed", "size", "mtime"):
                        a, b = getattr(e[s], "_" + f), getattr(e2[s], "_" + f)
                        if a != b:
                            vs.setdefault(("codec-field", f), {"before": repr(a), "after": repr(b)})
                    a, b = e[s]._exists, e2[s]._exists
                    if a != b:
                        vs.setdefault(("codec-field", "exists"), {"before": repr(a), "after": repr(b), "saved": repr(sx)})
                    a, b = e[s]._saved_exists, e2[s]._saved_exists
                    if a != b and not (a is None and b is None):
                        vs.setdefault(("codec-field", "_saved_exists"), {"before": repr(a), "after": repr(b)})
                if e2._ignored != ign:
                    vs.setdefault(("codec-field", "ignored"), {"before": repr(ign), "after": repr(e2._ignored)})
                if e2.storage_id != 5:
                    vs.setdefault(("codec-field", "storage_id"), {})
    else:
        # rows written by older releases still load to the documented value
        def side(**kw):
            d = {"otype": "file", "side": 0, "hash": b"h", "changed": None, "sync_hash": b"h", "path": "/a",
                 "sync_path": "/a", "oid": "o1", "exists": "exists", "temp_file": None}
            d.update(kw)
            return d
        legacy = [
            ("bool-true", {"side0": side(exists=True), "side1": side(side=1)}, lambda e: e[0]._exists == Exists.EXISTS),
            ("bool-false", {"side0": side(exists=False), "side1": side(side=1)}, lambda e: e[0]._exists == Exists.TRASHED),
            ("none", {"side0": side(exists=None), "side1": side(side=1)}, lambda e: e[0]._exists == Exists.UNKNOWN),
            ("discarded-key", {"side0": side(), "side1": side(side=1), "discarded": True},
             lambda e: e._ignored == IgnoreReason.DISCARDED),
            ("conflicted-key", {"side0": side(), "side1": side(side=1), "conflicted": True},
             lambda e: e._ignored == IgnoreReason.CONFLICT),
            ("ignored-trashed", {"side0": side(), "side1": side(side=1), "ignored": "trashed"},
             lambda e: e._ignored == IgnoreReason.DISCARDED),
            ("no-size-mtime", {"side0": side(), "side1": side(side=1)}, lambda e: e[0]._size is None and e[0]._mtime is None
             and e[0]._saved_exists is None),
            ("bad-saved-exists", {"side0": side(_saved_exists="nonsense"), "side1": side(side=1)},
             lambda e: e[0]._saved_exists == Exists.UNKNOWN),
            ("current", {"side0": side(size=3, mtime=1.5, _saved_exists=None), "side1": side(side=1), "ignored": "none",
                         "priority": 0}, lambda e: e[0]._size == 3 and e._ignored == IgnoreReason.NONE),
        ]
        for name, ser, ok in legacy:
            n += 1
            try:
                e = SyncEntry(st, None, (9, msgpack.dumps(ser, use_bin_type=True)))
                if not ok(e):
                    vs.setdefault(("legacy-row", name), {"row": repr(ser)[:200], "loaded": str(e)[:200]})
            except Exception as x:
                vs.setdefault(("legacy-row", name + ":raises"), {"error": repr(x)[:200]})
        # a row that cannot be decoded is dropped at load, it is not fatal
        sto = DictStorage()
        good = SyncEntry(st, FILE)
        st._loading = True
        good[0]._oid, good[0]._path = "o1", "/a"
        st._loading = False
        sto.create("T", good.serialize())
        sto.create("T", b"\xc1garbage")
        n += 1
        try:
            st2 = SyncState(st.providers, sto, "T")
            if len(st2._oids[0]) != 1 or len(sto.read_all("T")) != 1:
                vs.setdefault(("load", "bad-row-not-dropped"), {"rows": len(sto.read_all("T"))})
        except Exception as x:
            vs.setdefault(("load", "bad-row-fatal"), {"error": repr(x)[:200]})
    viols = []
    for k, d in vs.items():
        v = viol(k[0], k[1], d)
        v["hist"] = []
        viols.append(v)
    return {"states": n, "transitions": n, "evaluations": n, "traces": n, "nontrivial": n, "terminals": 0,
            "capped": False, "violations": viols, "outcomes": [],
            "sample": {"codec": part, "hash_shape": repr(HASHES[job.get("i", 0)])}}


def run_datarows(job):
    """the per-tag data rows (event cursor, walk marker) behave like one value per tag, also when two states share a store:
    every sequence of get / update(v) / delete_tag / forget by either state up to the depth, against a dict"""
    from ..world import DictStorage
    depth = job["depth"]
    ops = [(i, k, v) for i in (0, 1) for (k, v) in (("get", None), ("update", b"v1"), ("update", b"v2"), ("delete", None),
                                                      ("forget", None))]
    vs = {}
    n = 0
    for first in [ops[job["first"]]]:
        for rest in itertools.product(ops, repeat=depth - 1):
            seq = (first,) + rest
            n += 1
            env.install(env.Clock(), env.Counters())
            sto = DictStorage()
            l, r = MockProvider(False, True), MockProvider(False, True)
            sts = [SyncState((l, r), sto, "T"), SyncState((l, r), sto, "T")]
            model = None
            for step, (i, k, v) in enumerate(seq):
                st = sts[i]
                try:
                    if k == "get":
                        got = st.storage_get_data("cur")
                        if got != model:
                            vs.setdefault(("datarow-get", "differs"), {"seq": [list(map(repr, x)) for x in seq[:step + 1]],
                                                                       "got": repr(got), "want": repr(model)})
                            break
                    elif k == "update":
                        st.storage_update_data("cur", v)
                        model = v
                    elif k == "delete":
                        st.storage_delete_tag("cur")
                        model = None
                    elif k == "forget":
                        st.forget()             # forgets the entries of tag T; data rows live under their own tags
                except Exception as e:
                    vs.setdefault(("datarow-raises", "%s:%s" % (k, type(e).__name__)),
                                  {"seq": [list(map(repr, x)) for x in seq[:step + 1]], "error": repr(e)[:200]})
                    break
            else:
                rows = sto.read_all("cur")
                if len(rows) > 1 or (list(rows.values()) or [None])[0] != model:
                    vs.setdefault(("datarow-final", "differs"), {"seq": [list(map(repr, x)) for x in seq], "rows": repr(rows),
                                                                 "want": repr(model)})
    viols = []
    for kk, d in vs.items():
        v = viol(kk[0], kk[1], d)
        v["hist"] = d["seq"]
        viols.append(v)
    return {"states": n * depth, "transitions": n * depth, "evaluations": n, "traces": n, "nontrivial": n, "terminals": 0,
            "capped": False, "violations": viols, "outcomes": [], "sample": {"datarows": "depth %d" % depth}}


def codec_jobs(tier="quick"):
    return [{"codec": "fields", "i": i} for i in range(len(HASHES))] + [{"codec": "legacy"}] + \
        [{"codec": "datarows", "first": i, "depth": 5 if tier == "quick" else 6} for i in range(10)]


def main(tier):
    rep = report.Report(PROP, tier,
                        rule="(a) the C01 history list with a storage attached (oo, plus a quarter on po; thorough: four flavours): "
                             "after every engine transition of every interleaving, rows == live non-trash entries (byte equal), "
                             "no stale row, dirty set empty, and a SyncState reloaded from a copy has the same entries, pending set "
                             "and id/path lookups; (b) codec: every combination of 6 hash shapes x 4 paths x 3 ids x 6 existence "
                             "values x saved-existence x 5 ignore reasons x 3 change stamps x 3 sizes round-trips; legacy rows",
                        technique="explicit-state model checking of the implementation with a persistence monitor + bounded "
                                  "exhaustive codec enumeration")
    rep.add_results(report.pmap(__name__, jobs(tier), progress=500), part="engine-monitor")
    rep.add_results(report.pmap(__name__, codec_jobs(tier)), part="codec")
    return rep.finish()


def replay(path):
    import json
    d = json.load(open(path))
    if d["job"].get("codec"):
        r = run_codec(d["job"])
        print(json.dumps(r["violations"], indent=1, default=repr))
        return 1 if r["violations"] else 0
    from .. import seqx
    vs = seqx.replay(DRIVER, d["job"], d.get("hist") or [])
    return 1 if vs else 0
