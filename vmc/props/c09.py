"""C09 storage backends behave as a durable tag-isolated map: BFS over call sequences vs a dict (E2) + threads (E3)."""
import os
import itertools

from .. import env
from .. import apix, report
from ..seqx import viol
from ..world import DictStorage
from cloudsync.sync.sqlite_storage import SqliteStorage

PROP = "C09"
TAGS = ["t1", "T1", "t12"]        # another tag, a tag differing only by case, a tag with a common prefix
BIG = bytes(range(256)) * 1200          # 300 KiB
VALUES = {"e": b"", "x": b"x", "n": b"\xff\x00", "i": 7, "B": BIG}
_counter = itertools.count()


def configs(tier):
    c = [{"name": "sqlite_file", "backend": "sqlite_file"}, {"name": "sqlite_memory", "backend": "sqlite_memory"},
         {"name": "mock_storage", "backend": "mock"}]
    return c


def depth(tier, cfg):
    return 3 if tier == "quick" else 4


def cap(tier):
    return 30000 if tier == "quick" else 300000


def alphabet(cfg):
    ops = []
    for t in TAGS:
        for v in (VALUES if t == TAGS[0] else ("x", "i")):
            ops.append(["create", t, v])
        for i in range(3):          # 0..1 = k-th id issued so far, 2 = an id never issued
            for v in ("x", "i"):
                ops.append(["update", t, i, v])
            ops.append(["delete", t, i])
            ops.append(["read", t, i])
        ops.append(["read_all", t])
    ops.append(["read_all", None])
    if cfg["backend"] != "sqlite_memory":
        ops.append(["reopen"])
    return ops


class State:
    def __init__(self, cfg):
        self.cfg = cfg
        self.model = {}
        self.ids = []
        self.path = None
        self.dict = None
        self.fresh = False      # reopened and no create since (a backend may keep its id allocator in memory)
        b = cfg["backend"]
        if b == "sqlite_file":
            self.path = os.path.join(env.SCRATCH, "c09-%d-%d.db" % (os.getpid(), next(_counter)))
            self.s = SqliteStorage(self.path)
        elif b == "sqlite_memory":
            self.s = SqliteStorage(":memory:")
        elif b == "mock":
            from cloudsync.tests.fixtures.mock_storage import MockStorage
            self.dict = {}
            self.s = MockStorage(self.dict)
        else:
            raise ValueError(b)

    def reopen(self):
        b = self.cfg["backend"]
        if b == "sqlite_file":
            self.s.close()
            self.s = SqliteStorage(self.path)
        elif b == "mock":
            from cloudsync.tests.fixtures.mock_storage import MockStorage
            self.s.close()
            self.s = MockStorage(self.dict)


def make(cfg):
    return State(cfg)


def close(st):
    try:
        st.s.close()
    except Exception:
        pass
    if st.path:
        for suf in ("", "-wal", "-shm", "-journal"):
            try:
                os.unlink(st.path + suf)
            except FileNotFoundError:
                pass


def _id(st, i):
    if i < len(st.ids):
        return st.ids[i]
    return 990 + i


def _full(st):
    out = {}
    for t, rows in st.s.read_all().items():
        for i, v in rows.items():
            out[(t, i)] = v
    return out


def apply(st, op, check):
    vs = []
    k = op[0]
    s = st.s
    m = st.model

    def bad(kind, sig, **d):
        if check:
            d["op"] = op
            vs.append(viol(kind, sig, d))
    try:
        if k == "create":
            t, v = op[1], VALUES[op[2]]
            eid = s.create(t, v)
            if (t, eid) in m:
                bad("create-id-live", "id-in-use", id=eid, tag=t)
            m[(t, eid)] = v
            if eid not in st.ids and len(st.ids) < 2:
                st.ids.append(eid)
            st.fresh = False
        elif k == "update":
            t, eid, v = op[1], _id(st, op[2]), VALUES[op[3]]
            try:
                r = s.update(t, v, eid)
                raised = False
            except Exception:
                raised = True
                r = 0
            if (t, eid) in m:
                if raised or not r:
                    bad("update-live-failed", "raised" if raised else "zero", id=eid, tag=t)
                else:
                    m[(t, eid)] = v
            else:
                if not raised and r:
                    bad("update-missing-accepted", "ok", id=eid, tag=t, ret=r)
        elif k == "delete":
            t, eid = op[1], _id(st, op[2])
            s.delete(t, eid)
            m.pop((t, eid), None)
        elif k == "read":
            t, eid = op[1], _id(st, op[2])
            got = s.read(t, eid)
            want = m.get((t, eid))
            if got != want or type(got) != type(want):
                bad("read", "wrong-value" if want is not None else "missing-not-none",
                    got=repr(got)[:60], want=repr(want)[:60], tag=t, id=eid)
        elif k == "read_all":
            t = op[1]
            if t is not None:
                got = s.read_all(t)
                want = {i: v for (tt, i), v in m.items() if tt == t}
                if got != want:
                    bad("read_all-tag", "differs", got=repr(sorted(got))[:80], want=repr(sorted(want))[:80])
        elif k == "reopen":
            st.reopen()
            st.fresh = True
        else:
            raise ValueError(k)
    except Exception as e:
        if check:
            bad("raises", "%s:%s" % (k, type(e).__name__), error=repr(e)[:200])
        else:
            pass
    if check:
        try:
            full = _full(st)
            if full != m:
                extra = sorted(set(full) - set(m))
                missing = sorted(set(m) - set(full))
                diff = sorted(x for x in set(full) & set(m) if full[x] != m[x])
                bad("map-differs", "after-" + k, extra=extra[:4], missing=missing[:4], changed=diff[:4])
        except Exception as e:
            bad("raises", "read_all:%s" % type(e).__name__, error=repr(e)[:200])
    return vs


def dump(st):
    def d(v):
        return v if not isinstance(v, bytes) or len(v) < 10 else ("big", len(v))
    return (tuple(sorted((t, i, d(v)) for (t, i), v in st.model.items())), tuple(st.ids), st.fresh)


def main(tier):
    rep = apix.run(PROP, __name__, tier,
                   rule="all call sequences up to depth 3 (4 thorough) over create/update/delete/read/read_all/close+reopen, "
                        "tags {t1, T1 (case variant), t12 (common prefix)}, ids {the first two issued, one never issued}, values {empty, 1 byte, non-UTF-8, "
                        "300 KiB, int}; backends SqliteStorage on a /dev/shm file, SqliteStorage :memory:, upstream MockStorage; "
                        "after every call the full contents are compared with a dict; deduplicated on the dict",
                   technique="explicit-state BFS over API call sequences of the real storage backends against a dict model",
                   assumptions=["durability = close and reopen of the file, not power loss",
                                "concurrent use is explored separately by the thread engine (see evidence key 'threads')"])
    try:
        from . import c09_threads
        rep.add_results(c09_threads.run(tier), part="threads")
    except ImportError:
        pass
    return rep.finish()


def replay(path):
    return apix.replay(__name__, path)
