"""C09 (concurrency clause): 2-3 threads on one storage object, every interleaving, brute-force linearizability."""
import itertools
import os
import time

from .. import env
from .. import thrx, report
from ..seqx import viol
from cloudsync.sync.sqlite_storage import SqliteStorage

_counter = itertools.count()

# each thread: list of ops; ids refer to rows created in the set-up phase (id index 0,1) or to the thread's own create
PROGRAMS = {
    "create-create": [[("create", "t1", b"A")], [("create", "t1", b"B")]],
    "create-create-othertag": [[("create", "t1", b"A")], [("create", "t2", b"B")], [("create", "t1", b"C")]],
    "update-update": [[("update", "t1", 0, b"A"), ("read", "t1", 0)], [("update", "t1", 0, b"B"), ("read", "t1", 0)]],
    "update-delete": [[("update", "t1", 0, b"A")], [("delete", "t1", 0), ("read_all", "t1")]],
    "create-delete-readall": [[("create", "t1", b"A"), ("read_all", "t1")], [("delete", "t1", 0)], [("update", "t1", 1, b"Z")]],
}


def _apply_model(m, ids, op, ret_id=None):
    """sequential dict semantics; returns the expected result (or a predicate marker)"""
    k = op[0]
    if k == "create":
        m[(op[1], ret_id)] = op[2]
        return ("id", ret_id)
    if k == "update":
        key = (op[1], ids[op[2]])
        if key in m:
            m[key] = op[3]
            return ("ok",)
        return ("err",)
    if k == "delete":
        m.pop((op[1], ids[op[2]]), None)
        return ("ok",)
    if k == "read":
        return ("val", m.get((op[1], ids[op[2]])))
    if k == "read_all":
        return ("all", tuple(sorted((i, v) for (t, i), v in m.items() if t == op[1])))
    raise ValueError(k)


def run_one(backend, prog, prefix):
    path = None
    if backend == "sqlite":
        path = os.path.join(env.SCRATCH, "c09t-%d-%d.db" % (os.getpid(), next(_counter)))
        st = SqliteStorage(path)
        trace = ()
    else:
        from cloudsync.tests.fixtures.mock_storage import MockStorage
        MockStorage.lock_dict = {}
        st = MockStorage({})
        trace = ("fixtures/mock_storage.py",)
    s = thrx.Sched(prefix, trace_files=trace, step_limit=3000)
    thrx.CUR = None
    if backend == "sqlite":
        st._mutex = thrx.ShimLock()
    else:
        from cloudsync.tests.fixtures.mock_storage import MockStorage
        MockStorage.top_lock = thrx.ShimLock()

        def gis(tag):
            with MockStorage.top_lock:
                lock = MockStorage.lock_dict.setdefault(tag, thrx.ShimLock())
            return lock, st.storage_dict.setdefault(tag, dict())
        st._get_internal_storage = gis
    ids = [st.create("t1", b"0"), st.create("t1", b"1")]
    base = {("t1", ids[0]): b"0", ("t1", ids[1]): b"1"}
    thrx.CUR = s
    hist = []       # (thread, op index, op, call step, return step, result)
    programs = PROGRAMS[prog]

    def worker(ti):
        def run():
            for oi, op in enumerate(programs[ti]):
                call = s.nsteps
                try:
                    k = op[0]
                    if k == "create":
                        r = ("id", st.create(op[1], op[2]))
                    elif k == "update":
                        try:
                            rr = st.update(op[1], op[3], ids[op[2]])
                            r = ("ok",) if rr else ("err",)
                        except ValueError:
                            r = ("err",)
                    elif k == "delete":
                        st.delete(op[1], ids[op[2]])
                        r = ("ok",)
                    elif k == "read":
                        try:
                            r = ("val", st.read(op[1], ids[op[2]]))
                        except ValueError:
                            r = ("val", None)
                    elif k == "read_all":
                        r = ("all", tuple(sorted(st.read_all(op[1]).items())))
                except Exception as e:      # noqa
                    r = ("raised", type(e).__name__)
                hist.append((ti, oi, op, call, s.nsteps, r))
        return run
    for ti in range(len(programs)):
        s.spawn("t%d" % ti, worker(ti))
    s.run()
    vs = []
    final = {}
    try:
        thrx.CUR = None
        if backend == "sqlite":
            import threading
            st._mutex = threading.Lock()
        for t, rows in st.read_all().items():
            for i, v in rows.items():
                final[(t, i)] = v
    except Exception as e:
        vs.append(viol("final-read-raises", type(e).__name__, {}))
    finally:
        try:
            st.close()
        except Exception:
            pass
        if path:
            for suf in ("", "-wal", "-shm"):
                try:
                    os.unlink(path + suf)
                except FileNotFoundError:
                    pass
    if s.deadlock:
        vs.append(viol("deadlock", prog, {}))
    for t in s.threads:
        if t.exc is not None:
            vs.append(viol("thread-exception", type(t.exc).__name__, {"exc": repr(t.exc)}))
    if not s.deadlock and not s.horizon and len(hist) == sum(len(p) for p in programs):
        if not linearizable(hist, base, ids, final):
            vs.append(viol("not-linearizable", prog, {"history": [[h[0], list(map(repr, h[2])), repr(h[5])] for h in hist],
                                                      "final": repr(sorted(final.items()))}))
    obs = tuple(sorted((h[0], h[1], repr(h[5])) for h in hist)) + (repr(sorted(final.items())),)
    return s, obs, vs


def linearizable(hist, base, ids, final):
    n = len(hist)
    for perm in itertools.permutations(range(n)):
        ok = True
        # real-time order: if a returned before b was called, a must come first; program order within a thread
        pos = {h: i for i, h in enumerate(perm)}
        for a in range(n):
            for b in range(n):
                if a != b and (hist[a][4] < hist[b][3] or (hist[a][0] == hist[b][0] and hist[a][1] < hist[b][1])):
                    if pos[a] > pos[b]:
                        ok = False
                        break
            if not ok:
                break
        if not ok:
            continue
        m = dict(base)
        live_ids = set(i for (_, i) in m)
        for idx in perm:
            ti, oi, op, c, r, res = hist[idx]
            if op[0] == "create":
                if res[0] != "id" or (op[1], res[1]) in m:
                    ok = False
                    break
                _apply_model(m, ids, op, res[1])
            else:
                want = _apply_model(m, ids, op)
                if want != res:
                    ok = False
                    break
        if ok and m == final:
            return True
    return False


def run_job(job):
    t0 = time.time()
    stats, outcomes, viols = thrx.explore(lambda p: run_one(job["backend"], job["prog"], p), job["bound"],
                                          max_execs=job.get("max_execs", 4000), deadline=t0 + 120)
    return {"states": stats["points"], "transitions": stats["points"], "evaluations": stats["executions"],
            "traces": stats["executions"], "nontrivial": len(outcomes), "terminals": stats["executions"],
            "capped": stats["capped"], "violations": viols, "outcomes": list(outcomes)[:10],
            "sample": {"backend": job["backend"], "program": job["prog"], "threads": PROGRAMS[job["prog"]].__repr__()[:200]},
            "extra": {"thread_executions": stats["executions"]}}


def jobs(tier):
    out = []
    for backend in ("sqlite", "mock"):
        for prog in PROGRAMS:
            out.append({"cfg": {"name": "threads", "backend": backend, "program": prog}, "backend": backend, "prog": prog,
                        "bound": 3 if tier == "quick" else 6, "max_execs": 1500 if tier == "quick" else 30000})
    return out


def run(tier):
    rs = report.pmap(__name__, jobs(tier))
    for r in rs:
        if r and "job" in r:
            r["job"] = {"cfg": r["job"]["cfg"]}
    return rs
