"""C10 transient provider faults: survive, report, retry, still converge (E1 + fault enumeration)."""
import json

from .. import report, alphabet as A
from ..world import World, BASES, NoQuiescence, _show_tree
from ..seqx import viol, digest, job_id
from .base import Driver
from . import products as P
from .c06 import histories
import cloudsync.exceptions as ex

PROP = "C10"
KINDS = ("temporary", "disconnected", "token", "nospace")
NOTE_FOR = {"temporary": "TEMPORARY_ERROR", "disconnected": "DISCONNECTED_ERROR", "nospace": "OUT_OF_SPACE_ERROR"}


def _raise(w, side, kind):
    p = w.provs[side]
    if kind == "temporary":
        raise ex.CloudTemporaryError("injected")
    if kind == "disconnected":
        p.disconnect()
        raise ex.CloudDisconnectedError("injected")
    if kind == "token":
        p.disconnect()
        raise ex.CloudTokenError("injected")
    if kind == "nospace":
        raise ex.CloudOutOfSpaceError("injected")
    raise ValueError(kind)


class D(Driver):
    prop = PROP

    def make_world(self, job):
        w = World(job)
        if w.opts.get("resolver") is not None:
            from .base import resolver
            w.resolver_calls = []
            w.hooks["resolver"] = resolver
        w.api_count = 0
        w.plan = []         # list of (k, kind, phase)
        w.fired = []

        def fault(side, name, phase, idx, args):
            for (k, kind, ph) in w.plan:
                if k == idx and ph == phase:
                    w.fired.append((idx, side, name, kind, phase))
                    _raise(w, side, kind)
        w.fault = fault
        return w


DRIVER = D()


def jobs(tier):
    out = []
    cfgs = ["oo", "po"] if tier == "quick" else ["oo", "po", "ci", "pp"]
    hs = histories()
    for cfg in cfgs:
        for i, sc in enumerate(hs):
            n = len(sc[0]) + len(sc[1])
            if tier == "quick" and n == 2 and i % 8:
                continue
            if tier != "quick" and n == 2 and i % 2:
                continue
            out.append({"prop": PROP, "cfg": cfg, "order": "asc", "base": "B1", "scripts": A.stamp(sc),
                        "opts": {}, "pairs": tier != "quick" and n == 1})
    # first-ever start: faults during the initial walk / first synchronisation of a tree that existed before the engine
    for cfg in cfgs:
        for base_side in (0, 1):
            out.append({"prop": PROP, "cfg": cfg, "order": "asc", "base": "B1", "scripts": [[], []],
                        "opts": {"unsynced_base": True, "base_side": base_side, "check_base": False}})
    # a brand-new pair: empty roots created by the engine itself, the very first saved cursors (a provider's first cursor
    # value may be 0 / empty), then the first files arrive
    for cfg in cfgs:
        for sc in ([[["create", "c"], ["create", "e"]], []], [[], [["create", "c"], ["create", "e"]]],
                   [[["mkdir", "m"], ["create", "m/c"]], []], [[["create", "c"]], [["create", "e"]]]):
            for uf in (False, True):
                out.append({"prop": PROP, "cfg": cfg, "order": "asc", "base": [], "scripts": A.stamp(sc),
                            "opts": {"users_first": True, "event_points": True} if uf else {"event_points": True}})
    # established pair, several events per intake batch, each further event of the batch is a fault point
    for cfg in cfgs:
        for ops in ([["create", "c"], ["write", "a"]], [["rename", "d", "e"], ["create", "c"]], [["delete", "a"], ["mkdir", "m"]]):
            for side in (0, 1):
                sc = [[], []]
                sc[side] = ops
                out.append({"prop": PROP, "cfg": cfg, "order": "asc", "base": "B1", "scripts": A.stamp(sc),
                            "opts": {"users_first": True, "event_points": True}})
    # a fault in the middle of conflict resolution (application resolver answering merged data / one side, loser dropped)
    for cfg in cfgs:
        for shape, path in (("write", "a"), ("create", "c")):
            for b in ("merged_drop", "local_drop", "remote_keep"):
                out.append({"prop": PROP, "cfg": cfg, "order": "asc", "base": "B1",
                            "scripts": [[[shape, path, "L1"]], [[shape, path, "R1"]]], "opts": {"resolver": b, "users_first": True}})
    for cfg in cfgs:
        for variant in ("locked", "badname"):
            for lift in (0, 1, 2, 4, 8):
                out.append({"prop": PROP, "cfg": cfg, "order": "asc", "base": "B1", "scripts": [[], []],
                            "permanent": {"variant": variant, "lift_after": lift}})
    return out


def _mutator(name):
    return name in World.MUTATORS


def run_job(job):
    if job.get("permanent"):
        return run_permanent(job)
    drv = DRIVER
    vs = {}
    n_eval = 0
    steps = 0
    diag = {}
    w = drv.make_world(job)
    try:
        try:
            hist = w.prompt_run()
        except NoQuiescence:
            return _result(job, 0, 0, 1, {}, "base-noquiesce", [], {})
        base = P.judge(w)
        N = w.api_count
        calls = None
    finally:
        w.close()
    dropped_by_resolver = set(base["lost"]) if (job.get("opts") or {}).get("resolver") else set()    # (the application's own choice)
    if not base["converged"] or (base["lost"] and not dropped_by_resolver):
        return _result(job, 1, len(hist), 1, {}, "base-fails (see C01/C02)", hist, {})
    # which call indexes are mutators: learn from a traced base run
    w = drv.make_world(job)
    try:
        names = {}
        orig_fault = w.fault

        def tracer(side, name, phase, idx, args):
            if phase == "before":
                names[idx] = (side, name)
        w.fault = tracer
        for a in hist:
            w.act(a)
    finally:
        w.close()
    plans = []
    for k in range(1, N + 1):
        side, name = names.get(k, (None, "?"))
        for kind in KINDS:
            if kind == "nospace" and name not in ("create", "upload", "mkdir"):
                continue
            plans.append([(k, kind, "before")])
            if _mutator(name):
                plans.append([(k, kind, "after")])
    if job.get("pairs"):
        for k1 in range(1, N + 1):
            for k2 in range(k1 + 1, min(N, k1 + 10) + 1):
                plans.append([(k1, "temporary", "before"), (k2, "disconnected", "before")])
    elif len(job["scripts"][0]) + len(job["scripts"][1]) == 1:
        # two faults in a row on the intake path: the events() call fails, and so does one of the next few calls
        for k1 in range(1, N + 1):
            if names.get(k1, (None, "?"))[1] != "events":
                continue
            for k2 in range(k1 + 1, min(N + 1, k1 + 6) + 1):
                plans.append([(k1, "temporary", "before"), (k2, "temporary", "before")])
    has_later_user_op = sum(1 for a in hist if a in ("UL", "UR")) >= 2
    plans = [(pl, False) for pl in plans] + ([(pl, True) for pl in plans if len(pl) == 1] if has_later_user_op else [])
    for plan, users_now in plans:
        w = drv.make_world(job)
        try:
            w.plan = plan
            for a in hist:
                if a in w.actions():
                    nf = len(w.fired)
                    w.act(a)
                    if users_now and len(w.fired) > nf:
                        P.remaining_user_ops(w)     # the users keep working while the engine is backing off
            steps += len(hist)
            n_eval += 1
            bad = None
            try:
                w.settle(limit=150)
            except NoQuiescence:
                bad = ("noquiesce", {})
            if not w.fired:
                continue        # the faulted run took another path before reaching call k (nothing was injected)
            if bad is None:
                j = P.judge(w)
                if j["busy"] and not base.get("busy"):
                    bad = ("busy", {"pending": j["busy"]})
                elif not j["converged"]:
                    bad = ("diverge", j["trees"])
                elif [c for c in j["lost"] if c not in dropped_by_resolver]:
                    bad = ("lost:" + ",".join(c for c in j["lost"] if c not in dropped_by_resolver), j["trees"])
                elif dropped_by_resolver and j["trees"] != base["trees"]:
                    bad = ("resolution-differs", {"got": j["trees"], "undisturbed": base["trees"]})
                else:
                    for (idx, side, name, kind, phase) in w.fired:
                        want = NOTE_FOR.get(kind)
                        if want and not any(n[2] == want for n in w.notes):
                            bad = ("not-notified:" + kind, {"call": name, "notes": [n[2] for n in w.notes][:6]})
            for x in w.excs:
                if not x[1].startswith("Cloud") and x[1] not in ("_BackoffError",):
                    diag["swallowed:%s@%s" % (x[1], x[2])] = diag.get("swallowed:%s@%s" % (x[1], x[2]), 0) + 1
            if bad is not None:
                (k, kind, phase) = plan[0]
                side, name = names.get(k, (None, "?"))
                where = "%s.%s" % ("LR"[side] if side is not None else "?", name)
                sig = "%s:%s:%s:%s:%s" % (kind, phase, where, bad[0], digest(json.dumps(bad[1], sort_keys=True, default=repr)))
                if len(plan) > 1:
                    sig = "pair:" + sig
                if users_now:
                    sig = "users-act-during-backoff:" + sig
                if sig not in vs:
                    vs[sig] = viol("fault-" + bad[0].split(":")[0], sig,
                                   {"plan": [list(p) for p in plan], "users_act_right_after_fault": users_now, "call": where,
                                    "base_hist": hist, "observed": bad[1],
                                    "fired": [list(map(str, f)) for f in w.fired]})
                    vs[sig]["hist"] = hist + ["SETTLE"]
        finally:
            w.close()
    return _result(job, n_eval, steps, 0, vs, None, hist, diag, extra={"api_calls_in_base_runs": N})


def run_permanent(job):
    """a file that keeps failing is reported and set aside without stopping the healthy one; synchronised after the lift"""
    spec = job["permanent"]
    variant, lift = spec["variant"], spec["lift_after"]
    bad_name = "lock" if variant == "locked" else "b#d"
    j2 = dict(job)
    j2["scripts"] = [[["create", bad_name, "LX"], ["create", "ok", "LY"]], []]
    w = World(j2)
    vs = {}
    try:
        r = w.provs[1]
        if variant == "locked":
            r._locked_for_test.add("/remote/" + bad_name)
        else:
            r._forbidden_chars = ["#"]
        w.user(0)
        w.user(0)
        rounds = 0
        healthy_at = None
        for rounds in range(1, 60):
            if rounds - 1 == lift:
                if variant == "locked":
                    r._locked_for_test.clear()
                else:
                    # an invalid name stops failing when the user renames the file to a valid one
                    i = w.provs[0].info_path("/local/" + bad_name)
                    w.provs[0].rename(i.oid, "/local/bd")
                    bad_name = "bd"
            k = w.key()
            for a in ("IL", "IR", "S"):
                w.step(a)
            if healthy_at is None and w.tree(1).get("ok") == b"LY":
                healthy_at = rounds
            if w.key() == k and rounds > lift + 1:
                break
        tl, tr = w.tree(0), w.tree(1)
        obs = {"L": _show_tree(tl), "R": _show_tree(tr), "healthy_synced_at_round": healthy_at, "lift_after": lift}
        if healthy_at is None or healthy_at > 12:
            vs["starved"] = viol("permanent-healthy-starved", "%s:lift%d" % (variant, lift), obs)
        want = "TEMPORARY_ERROR" if variant == "locked" else "FILE_NAME_ERROR"
        if lift > 0 and not any(n[2] == want for n in w.notes):
            vs["note"] = viol("permanent-not-notified", "%s:lift%d" % (variant, lift), {"notes": [n[2] for n in w.notes][:8]})
        if tr.get(bad_name) != b"LX":
            vs["after"] = viol("permanent-not-synced-after-lift", "%s:lift%d" % (variant, lift), obs)
        for v in vs.values():
            v["hist"] = ["UL", "UL", "rounds=%d" % rounds]
    finally:
        w.close()
    return {"states": rounds * 3, "transitions": rounds * 3, "evaluations": 1, "traces": 1, "nontrivial": 1, "terminals": 1,
            "capped": False, "violations": list(vs.values()), "outcomes": [],
            "sample": {"permanent": spec}, "extra": {}}


def _result(job, n_eval, states, gated, vs, note, hist, diag, extra=None):
    exx = {"base_runs_gated_out": gated, "base_runs": 1}
    exx.update(extra or {})
    for k, v in diag.items():
        exx["diag_" + k] = v
    return {"states": max(states, 1), "transitions": max(states, 1), "evaluations": n_eval, "traces": n_eval,
            "nontrivial": n_eval, "terminals": n_eval, "capped": False, "violations": list(vs.values()),
            "outcomes": [], "sample": {"job": job_id(job), "base_hist": hist, "note": note}, "extra": exx}


def main(tier):
    rep = report.Report(PROP, tier,
                        rule="base runs = prompt-schedule executions of one-sided (<=2 ops) and disjoint 1+1 histories; EVERY provider "
                             "API call the engine makes in the run (reads and writes, both sides) is failed once with each of "
                             "{temporary, disconnected(+disconnect), token(+disconnect), out-of-space(create/upload/mkdir)} before "
                             "it has any effect, and every mutating call additionally right AFTER the provider applied it; "
                             "thorough adds all pairs within a 10-call window for 1-op histories; plus permanent per-path failures "
                             "(locked path, forbidden character) lifted after 0,1,2,4,8 rounds with a healthy second file. "
                             "Oracle: quiescence, convergence and no loss after the fault (gated on the undisturbed run), "
                             "notification of the matching kind. evaluations = fault placements",
                        technique="exhaustive fault-placement enumeration on explored executions of the implementation",
                        assumptions=["the service loop body is the real Runnable.run iteration; exceptions it swallows that are not "
                                     "Cloud exceptions are listed as diagnostics (diag_swallowed:*), not violations"])
    rep.add_results(report.pmap(__name__, jobs(tier), progress=200))
    return rep.finish()


def replay(path):
    d = json.load(open(path))
    r = run_job(d["job"])
    hit = [v for v in r["violations"] if v["sig"] == d["sig"]]
    print(json.dumps(d["detail"], indent=1, default=repr))
    print("reproduced" if hit else "not reproduced")
    return 1 if hit else 0
