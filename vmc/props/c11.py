"""C11 sync-state index integrity: BFS over raw state-level operations (E2) + monitor on engine runs (E1)."""
from .. import env
from .. import apix, report, alphabet as A
from ..seqx import viol
from ..world import World, BASES
from .base import Driver, run_explore
from cloudsync.sync.state import SyncState, SyncEntry, TRASHED, EXISTS, MISSING, UNKNOWN
from cloudsync import FILE, DIRECTORY, LOCAL, REMOTE
from cloudsync.types import IgnoreReason
from cloudsync.providers.mock import MockProvider

PROP = "C11"
OIDS = ["o1", "o2"]
PATHS = ["/a", "/b", "/d", "/d/a"]


# ------------------------------------------------------------------------------------------------ invariants
def invariants(st):
    errs = []
    allents = st.get_all(discarded=True)
    for s in (0, 1):
        for o, e in st._oids[s].items():
            if e[s]._oid != o:
                errs.append(("oid-slot-stale", {"side": s, "slot": o, "entry_oid": e[s]._oid}))
        for p, d in st._paths[s].items():
            if not d:
                errs.append(("empty-path-slot", {"side": s, "path": p}))
            for o, e in d.items():
                if e[s]._path != p or e[s]._oid != o:
                    errs.append(("path-slot-stale", {"side": s, "slot": [p, o], "entry": [e[s]._path, e[s]._oid]}))
    owners = ({}, {})
    for e in allents:
        for s in (0, 1):
            if e[s]._oid is not None:
                if st._oids[s].get(e[s]._oid) is not e:
                    errs.append(("entry-not-under-oid", {"side": s, "oid": e[s]._oid}))
                if e[s]._path and st._paths[s].get(e[s]._path, {}).get(e[s]._oid) is not e:
                    errs.append(("entry-not-under-path", {"side": s, "path": e[s]._path, "oid": e[s]._oid}))
                if e[s]._oid in owners[s] and owners[s][e[s]._oid] is not e:
                    errs.append(("two-owners", {"side": s, "oid": e[s]._oid}))
                owners[s][e[s]._oid] = e
                if st.lookup_oid(s, e[s]._oid) is not e:
                    errs.append(("lookup-oid", {"side": s, "oid": e[s]._oid}))
                if e[s]._path and not e.is_discarded and not e.is_conflicted and e not in st.lookup_path(s, e[s]._path):
                    errs.append(("lookup-path", {"side": s, "path": e[s]._path}))
    pend = set(st._changeset_storage)
    for e in pend:
        if e not in allents:
            errs.append(("pending-forgotten-entry", {"oids": [e[0]._oid, e[1]._oid]}))
    for e in allents:
        if e.is_discarded:
            continue
        want = any(e[s]._changed and e[s]._oid is not None for s in (0, 1))
        if want != (e in pend):
            errs.append(("pending-mismatch", {"want": want, "have": e in pend,
                                              "sides": [[e[s]._oid, bool(e[s]._changed)] for s in (0, 1)]}))
    return errs


# ------------------------------------------------------------------------------------------------ E2 spec
# start states other than the empty one, so that id take-overs between two EXISTING entries and the follow-up bookkeeping are
# within two further calls: (halves) a remote-only and a local-only pending entry; (linked) a synced pair whose remote side
# has a pending change next to a local-only pending entry
def _pfx(oip, linked):
    l1, l2 = ("/a", "/d/a") if oip else ("o1", "o2")
    if not linked:
        return [["update", 1, "F", "o2", "/a", "h1", True, None], ["update", 0, "F", l1, "/a", "h1", True, None]]
    return [["update", 0, "F", l1, "/a", "h1", True, None], ["set_oid", 0, 1, "o2"], ["finish", 0, 0],
            ["update", 1, "F", "o2", "/a", "h1", True, None], ["update", 0, "F", l2, "/d/a", "h1", True, None]]


def configs(tier):
    out = _configs(tier)
    for oip in (False, True):       # same in both tiers: the deeper / "halves" variants were not run to completion (DESIGN 13.7)
        out.append({"name": "%s_linked_d2" % ("path" if oip else "oid"), "oip": oip, "reduced": False, "depth": 2,
                    "prefix": _pfx(oip, True)})
    return out


def _configs(tier):
    if tier == "quick":
        return [{"name": "oid_full_d2", "oip": False, "reduced": False, "depth": 2},
                {"name": "path_full_d2", "oip": True, "reduced": False, "depth": 2},
                {"name": "oid_reduced_d3", "oip": False, "reduced": True, "depth": 3},
                {"name": "path_reduced_d3", "oip": True, "reduced": True, "depth": 3}]
    return [{"name": "oid_full_d3", "oip": False, "reduced": False, "depth": 3},
            {"name": "path_full_d3", "oip": True, "reduced": False, "depth": 3},
            {"name": "oid_reduced_d4", "oip": False, "reduced": True, "depth": 4},
            {"name": "path_reduced_d4", "oip": True, "reduced": True, "depth": 4}]


def depth(tier, cfg):
    return cfg["depth"]


def cap(tier):
    return 150000 if tier == "quick" else 2000000


def alphabet(cfg):
    oip, red = cfg["oip"], cfg["reduced"]
    out = []
    for side in (0, 1):
        path_style = oip and side == 0
        for otype in ("F", "D"):
            if red and otype == "D" and side == 1:
                continue
            for ex_ in (True, False, None):
                if red and ex_ is None:
                    continue
                if path_style:
                    for p in (PATHS[:3] if red else PATHS):
                        for prior in [None] + [q for q in PATHS if q != p][:(1 if red else 2)]:
                            out.append(["update", side, otype, p, p, "h1", ex_, prior])
                else:
                    for o in OIDS:
                        for p in ([None, "/a"] if red else [None, "/a", "/d/a"]):
                            for h in (("h1",) if red else ("h1", "h2")):
                                out.append(["update", side, otype, o, p, h, ex_, None])
    n = 2
    out += [["split", i] for i in range(n)] + [["discard", i] for i in range(n)]
    out += [["finish", i, s] for i in range(n) for s in (0, 1)] + [["conflict", i] for i in range(n)]
    out += [["move_side", i, j, s] for i in range(n) for j in range(n) if i != j for s in (0, 1)]
    out += [["unignore", i] for i in range(n)]
    out += [["set_path", i, s, p] for i in range(n) for s in (0, 1) for p in ("/b", None)]
    out += [["set_oid", i, s, o] for i in range(n) for s in (0, 1) for o in ("o2", None)]
    out += [["mark_changed", i, s] for i in range(n) for s in (0, 1)]
    out += [["clear", i, s] for i in range(n) for s in (0, 1)]
    return out


class State:
    def __init__(self, cfg):
        env.install(env.Clock(), env.Counters())
        l = MockProvider(cfg["oip"], True)
        r = MockProvider(False, True)
        l.connection_id = "L"
        r.connection_id = "R"
        l.connect({"k": 1})
        r.connect({"k": 1})
        self.st = SyncState((l, r), shuffle=False)


def make(cfg):
    S = State(cfg)
    for op in cfg.get("prefix", []):        # non-initial start state (rebuilt identically by every replay)
        apply(S, op, False)
    return S


def close(st):
    pass


def ents(st):
    return sorted(st.get_all(discarded=True) | set(st._changeset_storage), key=lambda e: e._vseq)


def apply(S, op, check):
    st = S.st
    k = op[0]
    raised = None
    try:
        if k == "update":
            _, side, otype, oid, path, h, ex_, prior = op
            ot = FILE if otype == "F" else DIRECTORY
            st.update(side, ot, oid, path=path, hash=h.encode() if ot == FILE else None, exists=ex_, prior_oid=prior)
        else:
            es = ents(st)
            if op[1] >= len(es):
                return []
            e = es[op[1]]
            if k == "split":
                if not e[LOCAL].oid:
                    return []
                st.split(e)
            elif k == "discard":
                e.ignore(IgnoreReason.DISCARDED)
            elif k == "conflict":
                e.ignore(IgnoreReason.CONFLICT)
            elif k == "unignore":
                e.ignored = IgnoreReason.NONE
            elif k == "finish":
                e[op[2]].changed = 0
                st.finished(e)
            elif k == "move_side":
                if op[2] >= len(es):
                    return []
                other = es[op[2]]
                s = op[3]
                if other[s].oid is None:
                    return []
                if e[s].otype is not None and other[s].otype is not None and e[s].otype != other[s].otype:
                    return []           # the engine only merges the halves of ONE object (same type)
                if e[s].path and other[s].path and e[s].path != other[s].path:
                    return []           # ... found at ONE path (a folder's side is never moved onto its own child's entry)
                e[s] = other[s]
            elif k == "set_path":
                s, p = op[2], op[3]
                if p is not None and not e[s].oid:
                    return []           # precondition of the engine: a path needs an id
                e[s].path = p
            elif k == "set_oid":
                e[op[2]].oid = op[3]
            elif k == "mark_changed":
                if e[op[2]].oid is None and e[op[2]].path is None:
                    return []
                st.mark_changed(op[2], e)
            elif k == "clear":
                e[op[2]].clear()
    except AssertionError as e:      # precondition rejected the call: the indexes must still be intact
        raised = e
    except Exception as e:
        raised = e
        if check:
            vs = [viol("raises", "%s:%s" % (k, type(e).__name__), {"op": op, "error": repr(e)[:200]})]
            return vs + [viol("after-raise:" + n, k, d) for n, d in invariants(st)[:2]]
        return []
    if not check:
        return []
    errs = invariants(st)
    pre = "after-assert:" if raised is not None else ""
    return [viol(pre + n, k, dict(d, op=op)) for n, d in errs[:3]]


def dump(S):
    st = S.st
    es = ents(st)
    rows = []
    for e in es:
        rows.append(tuple((e[s]._oid, e[s]._path, bool(e[s]._changed), e[s]._exists.value,
                           e[s]._otype.value if e[s]._otype else None, e[s]._hash, e[s]._sync_path) for s in (0, 1))
                    + (e._ignored.value, e in st._changeset_storage))
    idx = tuple(tuple(sorted((o, es.index(e) if e in es else -1) for o, e in st._oids[s].items())) for s in (0, 1))
    pidx = tuple(tuple(sorted((p, o, es.index(e) if e in es else -1) for p, d in st._paths[s].items()
                              for o, e in d.items())) for s in (0, 1))
    return (tuple(rows), idx, pidx)


# ------------------------------------------------------------------------------------------------ E1 monitor
class Mon(Driver):
    prop = PROP

    def on_step(self, w, a, pre):
        vs = [viol("engine:" + n, a, d) for n, d in invariants(w.cs.state)[:3]]
        if w.opts.get("storage"):
            # the state a restart would build from the rows written so far obeys the same invariants, and every live entry
            # that has a path is found under it
            from ..world import DictStorage
            st = w.cs.state
            env.install(w.clock, w.ctr)
            st2 = SyncState(st.providers, DictStorage(*w.storage.snapshot()), st._tag)
            vs += [viol("reloaded:" + n, a, d) for n, d in invariants(st2)[:3]]
        return vs

    def on_terminal(self, w):
        return self.observe(w), []


DRIVER = Mon()


def engine_jobs(tier):
    from .c01 import histories
    hs = histories()
    out = []
    cfgs = ["oo", "po"] if tier == "quick" else ["oo", "po", "ci", "pci", "pp"]
    for cfg in cfgs:
        for i, sc in enumerate(hs):
            if tier == "quick" and i % 2:
                continue
            job = {"prop": PROP, "cfg": cfg, "order": "asc", "base": "B1", "scripts": A.stamp(sc),
                   "mode": {"k": None, "cap": 1000 if tier == "quick" else 4000, "depth": 50, "audit": 0}}
            if i % 4 == 0:
                job["opts"] = {"storage": True}     # also check the state rebuilt from storage after every transition
            out.append(job)
    # id take-over histories (one side removes/moves b away and renames a onto it, the other side edits a or b) on
    # flavours with path ids on either side: entries are ousted from their id while keeping their path
    repl = [[["delete", "b"], ["rename", "a", "b"]], [["rename", "b", "c"], ["rename", "a", "b"]]]
    others = [[["write", "b"]], [["write", "a"]], [["delete", "b"]]]
    for cfg in (["po", "op", "pp"] if tier == "quick" else ["po", "op", "pp", "pci", "oo"]):
        for r in repl:
            for o in others:
                for sc in ([r, o], [o, r]):
                    out.append({"prop": PROP, "cfg": cfg, "order": "asc", "base": "B3", "scripts": A.stamp(sc),
                                "mode": {"k": None, "cap": 1500 if tier == "quick" else 6000, "depth": 60, "audit": 0}})
    return out


def run_job(job):
    return run_explore(DRIVER, job)


def main(tier):
    rep = apix.run(PROP, __name__, tier,
                   rule="(a) bare SyncState with an id-style or path-style local side: all sequences of raw update events "
                        "(type,id,path,hash,exists,prior id), split, discard/conflict/unignore, finish, side-state move, path/id "
                        "assignment, mark changed, clear - depth 2 on the full alphabet and depth 3 on a reduced one (3/4 thorough), "
                        "index invariants after every call (also after a call rejected by an assert); (b) the same invariants "
                        "after every transition of an engine exploration over the C01 history list",
                   technique="explicit-state BFS over state-level call sequences + invariant monitor on the engine exploration",
                   assumptions=["field assignments are made with the preconditions the engine itself observes (a path needs an id; a side "
                                "state is only moved between entries of the same object type and path)"])
    rep.add_results(report.pmap(__name__, engine_jobs(tier), progress=500), part="engine-monitor")
    return rep.finish()


def replay(path):
    import json
    d = json.load(open(path))
    if "scripts" in d["job"]:
        from .. import seqx
        vs = seqx.replay(DRIVER, d["job"], d.get("hist") or [])
        return 1 if vs else 0
    return apix.replay(__name__, path)
