"""C12 root confinement: nothing outside the sync roots is synced or modified (E1)."""
import json

from .. import report, alphabet as A
from ..world import World, ROOTS, _show_tree, trees_equal_mod_conflicted
from ..seqx import viol, digest
from .base import Driver, run_explore

PROP = "C12"

OUTSIDE = {
    "0": [["mkdir", "/other"], ["create", "/other/x", "OUTL-x"], ["mkdir", "/localX"], ["create", "/localX/y", "OUTL-y"],
          ["create", "/rootfile", "OUTL-r"], ["mkdir", "/other/sub"], ["create", "/other/sub/s", "OUTL-s"]],
    "1": [["mkdir", "/other"], ["create", "/other/x", "OUTR-x"], ["mkdir", "/remote2"], ["create", "/remote2/z", "OUTR-z"],
          ["create", "/rootfile", "OUTR-r"], ["mkdir", "/other/sub"], ["create", "/other/sub/s", "OUTR-s"]],
}
SIB = {0: "/localX/y", 1: "/remote2/z"}

INSIDE = [["create", "c"], ["write", "a"], ["delete", "a"], ["rename", "a", "c"], ["mkdir", "e"], ["write", "d/b"]]
OUT = [["create", "/other/n"], ["write", "/other/x"], ["delete", "/other/x"], ["rename", "/other/x", "/other/y"],
       ["write", "SIB"], ["write", "/rootfile"], ["rename", "/other/sub", "/other/sub2"]]
CROSS = [["rename", "a", "/other/a"], ["rename", "/other/x", "x"], ["rename", "d", "/other/d"], ["rename", "/other/sub", "sub"],
         ["rename", "d/b", "/other/b"], ["rename", "a", "SIBDIR/a"], ["rename", "/rootfile", "r"]]
FOLLOW = [["write", "/other/a"], ["rename", "x", "/other/x2"], ["write", "x"], ["rename", "/other/a", "a"], ["create", "sub/n"],
          ["write", "/other/d/b"], ["delete", "x"]]
SKIP = [["create", "skipme"], ["mkdir", "skipdir"], ["rename", "a", "skipa"], ["rename", "skipme", "keep"], ["write", "skipme"],
        ["create", "skipdir/in"]]


def _inside(side, path):
    r = ROOTS[side]
    return path == r or path.startswith(r + "/")


def _skip(rel):
    return any(c.startswith("skip") for c in rel.split("/")[-1:])


class D(Driver):
    prop = PROP

    def make_world(self, job):
        w = World(job)
        w.out0 = (w.outside(0), w.outside(1))
        return w

    def pre_step(self, w, a):
        if a in ("IL", "IR", "S"):
            return (w.outside(0), w.outside(1), len(w.calls))
        return None

    def on_step(self, w, a, pre):
        vs = []
        if pre is None:
            return vs
        o0, o1, n = pre
        for side, before in ((0, o0), (1, o1)):
            after = w.outside(side)
            if after != before:
                diff = sorted(set(after) ^ set(before), key=repr)[:3]
                vs.append(viol("outside-modified", "%s:%s" % ("LR"[side], digest(repr(diff))),
                               {"side": side, "diff": [list(map(str, d)) for d in diff]}))
        for (act, side, name, args, res) in w.calls[n:]:
            p = None
            if name in ("create", "mkdir"):
                p = args[0]
            elif name == "rename":
                p = args[1]
            if isinstance(p, str) and not _inside(side, p):
                vs.append(viol("write-outside-root", "%s:%s:%s" % ("LR"[side], name, p), {"call": name, "args": list(args)}))
        # bytes that only ever lived outside a root never show up on the other side
        for side in (0, 1):
            for c in w.job.get("outside_only", {}).get(str(side), []):
                cb = c.encode()
                for k, o in w.provs[1 - side]._mock_fs._objects.items():
                    if k.startswith("/") and o.exists and o.contents == cb:
                        vs.append(viol("outside-content-copied", c, {"to": o.path}))
        return vs

    def on_terminal(self, w):
        tl, tr = w.tree(0), w.tree(1)
        obs = {"L": _show_tree(tl), "R": _show_tree(tr)}
        vs = []
        skip = w.opts.get("translate") == "skip"
        if skip:
            a = {p: v for p, v in tl.items() if not any(c.startswith("skip") for c in p.split("/"))}
            b = {p: v for p, v in tr.items() if not any(c.startswith("skip") for c in p.split("/"))}
            made = [set(), set()]
            for side, op, ok in w.user_log:
                if ok:
                    for p in op[1:3]:
                        if isinstance(p, str) and not p.startswith("/"):
                            made[side].add(p)
            for side, t in ((0, tl), (1, tr)):
                for p in t:
                    if any(c.startswith("skip") for c in p.split("/")[-1:]) and p not in made[side]:
                        vs.append(viol("declined-name-synced", "%s:%s" % ("LR"[side], p), obs))
            # "left alone on both sides": renaming a synced object to a declined name does not remove its peer
            for side, op, ok in w.user_log:
                if ok and op[0] == "rename" and not op[1].startswith("/") and not _skip(op[1]) and _skip(op[2]):
                    other = 1 - side
                    if any(s_ == other and k_ and any(isinstance(x, str) and (x == op[1] or op[1].startswith(x + "/"))
                                                     for x in o_[1:3]) for s_, o_, k_ in w.user_log):
                        continue
                    if op[1] not in (tl, tr)[other]:
                        vs.append(viol("declined-rename-removed-peer", "%s:%s" % ("LR"[other], op[1]), obs))
        else:
            a, b = tl, tr
        renames_skip = skip and any(op[0] == "rename" and (_skip(op[1]) or _skip(op[2])) for sc in w.scripts for op in sc)
        # an object renamed to a declined name is "left alone on both sides": its old peer legitimately stays
        if not renames_skip and not trees_equal_mod_conflicted(a, b, self.fold(w)):
            vs.append(viol("inside-diverge", digest(json.dumps(obs, sort_keys=True)), obs))
        return obs, vs


DRIVER = D()


def _subst(op, side):
    out = []
    for x in op:
        if x == "SIB":
            x = SIB[side]
        elif isinstance(x, str) and x.startswith("SIBDIR/"):
            x = SIB[side].rsplit("/", 1)[0] + x[6:]
        out.append(x)
    return out


def _outside_only(scripts):
    """outside contents of a side that its script never moves into the root"""
    res = {}
    for side in (0, 1):
        moved = set()
        for op in scripts[side]:
            if op[0] == "rename" and op[1].startswith("/") and not op[2].startswith("/"):
                moved.add(op[1])
        keep = []
        for op in OUTSIDE[str(side)]:
            if op[0] == "create" and not any(op[1] == m or op[1].startswith(m + "/") for m in moved):
                keep.append(op[2])
        res[str(side)] = keep
    return res


def jobs(tier):
    out = []
    cfgs = ["oo", "po", "of"] if tier == "quick" else ["oo", "po", "of", "ci", "pp"]
    singles = OUT + CROSS
    pairs = []
    for a in CROSS:
        for b in FOLLOW + INSIDE[:3] + OUT[:3]:
            pairs.append([a, b])
    for a in OUT[:4]:
        for b in CROSS[:4]:
            pairs.append([a, b])
    hists = [[[s], []] for s in singles] + [[[], [s]] for s in singles]
    hists += [[p, []] for p in pairs] + [[[], p] for p in pairs]
    for a in CROSS:
        for b in INSIDE + CROSS[:3]:
            hists.append([[a], [b]])
            hists.append([[b], [a]])
    for cfg in cfgs:
        for rb in ([False] if tier == "quick" else [False, True]):
            for sc in hists:
                sc2 = [[_subst(op, 0) for op in sc[0]], [_subst(op, 1) for op in sc[1]]]
                st = A.stamp(sc2)
                opts = {"outside": OUTSIDE, "check_base": True}
                if rb:
                    opts["roots_by_id"] = True
                out.append({"prop": PROP, "cfg": cfg, "order": "asc", "base": "B1", "scripts": st, "opts": opts,
                            "outside_only": _outside_only(st),
                            "mode": {"k": None, "cap": 1500, "depth": 60, "audit": 64 if tier == "quick" else 8}})
        # custom translate declining names that start with 'skip'
        sk = [[[s], []] for s in SKIP[:3]] + [[[], [s]] for s in SKIP[:3]]
        sk += [[[SKIP[0], SKIP[3]], []], [[SKIP[0], SKIP[4]], []], [[SKIP[1], SKIP[5]], []], [[], [SKIP[0], SKIP[3]]],
               [[], [SKIP[1], SKIP[5]]], [[SKIP[0]], [SKIP[0]]], [[SKIP[2]], [["write", "a"]]],
               [[["rename", "d/b", "d/skipb"]], []], [[], [["rename", "d", "skipd"]]], [[["write", "a"], SKIP[2]], []]]
        for sc in sk:
            st = A.stamp(sc)
            out.append({"prop": PROP, "cfg": cfg, "order": "asc", "base": "B1", "scripts": st,
                        "opts": {"outside": OUTSIDE, "translate": "skip"}, "outside_only": _outside_only(st),
                        "mode": {"k": None, "cap": 1500, "depth": 60, "audit": 0}})
    # mixed case modes: a sibling folder of the case-SENSITIVE root whose name differs from the root only by case is outside
    for cfg, cs_side in (("lci", 1), ("rci", 0), ("plci", 1)):
        import copy
        outside = copy.deepcopy(OUTSIDE)
        sib = ROOTS[cs_side].upper()
        outside[str(cs_side)] += [["mkdir", sib], ["create", sib + "/secret", "OUT-CASE-SIB"], ["mkdir", sib + "/sub"],
                                  ["create", sib + "/sub/deep", "OUT-CASE-DEEP"]]
        for sc in ([[], []], [[["create", "c"]], []], [[], [["create", "c"]]],
                   [[["write", sib + "/secret"]] if cs_side == 0 else [], [["write", sib + "/secret"]] if cs_side == 1 else []],
                   [[["rename", sib + "/secret", "in"]] if cs_side == 0 else [], [["rename", sib + "/secret", "in"]] if cs_side == 1 else []],
                   [[["rename", "a", sib + "/a"]] if cs_side == 0 else [], [["rename", "a", sib + "/a"]] if cs_side == 1 else []]):
            st = A.stamp(sc)
            oo = _outside_only(st)
            moved_in = any(op[0] == "rename" and op[1] == sib + "/secret" for s_ in st for op in s_)
            oo[str(cs_side)] = oo.get(str(cs_side), []) + (["OUT-CASE-DEEP"] if moved_in else ["OUT-CASE-SIB", "OUT-CASE-DEEP"])
            out.append({"prop": PROP, "cfg": cfg, "order": "asc", "base": "B1", "scripts": st,
                        "opts": {"outside": outside, "check_base": True}, "outside_only": oo,
                        "mode": {"k": None, "cap": 1500, "depth": 60, "audit": 0}})
    return out


def run_job(job):
    return run_explore(DRIVER, job)


def main(tier):
    rep = report.Report(PROP, tier,
                        rule="accounts with content outside the roots on both sides (another folder with a subtree, a prefix-sibling "
                             "folder /localX, /remote2, a file at the account root); histories of <=2 operations mixing inside "
                             "operations, outside operations and moves across the boundary (file/folder out, in, out-then-edit, "
                             "in-then-out, into the prefix sibling), one- and two-sided, every interleaving with engine steps; "
                             "flavours oo, po, filtering on both sides (thorough: roots given by id, ci, pp); custom translate "
                             "declining 'skip*' names. After every engine step: outside snapshot of both accounts unchanged, "
                             "every engine create/mkdir/rename target inside its root (component boundary), outside-only bytes "
                             "never on the other side; at quiet states inside trees converge",
                        technique="explicit-state model checking of the implementation (exhaustive schedule exploration) with a "
                                  "confinement monitor")
    rep.add_results(report.pmap(__name__, jobs(tier), progress=500))
    return rep.finish()
