"""C13 path algebra: bounded exhaustive enumeration of strings against the laws of the statement (E4)."""
import itertools
import time

from .. import env  # noqa
from .. import report, enumx
from ..seqx import viol
from cloudsync.providers.mock import MockProvider
from cloudsync import CloudSync

PROP = "C13"
ALPHA = ["/", "\\", "a", "A", "b", ".", " ", "é"]


def mkprov(cfg):
    cls = type("P_" + cfg["name"], (MockProvider,), {"sep": cfg["sep"], "alt_sep": cfg["alt"],
                                                     "win_paths": cfg.get("win", False)})
    p = cls(False, cfg["cs"])
    return p


CONFIGS = [
    {"name": "posix_cs", "sep": "/", "alt": "\\", "cs": True},
    {"name": "posix_ci", "sep": "/", "alt": "\\", "cs": False},
    {"name": "win_ci", "sep": "\\", "alt": "/", "cs": False, "win": True},
    {"name": "noalt_cs", "sep": "/", "alt": None, "cs": True},
]


def strings(maxlen, alpha=ALPHA):
    return enumx.strings(maxlen, alpha)


def _call(vs, law, f, *a):
    try:
        return True, f(*a)
    except Exception as e:
        vs.setdefault((law, "raises:" + type(e).__name__), {"law": law, "args": [repr(x) for x in a], "error": repr(e)})
        return False, None


def unary(p, cfg, s, vs):
    sep = cfg["sep"]
    ok, n1 = _call(vs, "nps-idempotent", p.normalize_path_separators, s)
    if ok:
        ok2, n2 = _call(vs, "nps-idempotent", p.normalize_path_separators, n1)
        if ok2 and n2 != n1:
            vs.setdefault(("nps-idempotent", "differs"), {"law": "nps-idempotent", "s": s, "once": n1, "twice": n2})
    for disp in (False, True):
        ok, m1 = _call(vs, "normalize-idempotent", p.normalize_path, s, disp)
        if ok:
            ok2, m2 = _call(vs, "normalize-idempotent", p.normalize_path, m1, disp)
            if ok2 and m2 != m1:
                vs.setdefault(("normalize-idempotent", "differs%d" % disp),
                              {"law": "normalize-idempotent", "s": s, "once": m1, "twice": m2, "for_display": disp})
    if not s:
        return
    # split then join gives back an equivalent path
    ok, parts = _call(vs, "split-join", p.split, s)
    if ok:
        ok2, j = _call(vs, "split-join", p.join, *parts)
        if ok2:
            ok3, m = _call(vs, "split-join", p.paths_match, j, s)
            if ok3 and not m:
                vs.setdefault(("split-join", "not-equivalent"), {"law": "split-join", "s": s, "split": list(parts), "joined": j})
    # equality agrees with normalisation; reflexive
    ok, m = _call(vs, "match-reflexive", p.paths_match, s, s)
    if ok and not m:
        vs.setdefault(("match-reflexive", "false"), {"law": "match-reflexive", "s": s})
    # case folding only where insensitive, display case of the leaf preserved
    ok, np_ = _call(vs, "case", p.normalize_path, s)
    if ok:
        if cfg["cs"]:
            ok2, lo = _call(vs, "case", p.normalize_path, s.swapcase())
            if ok2 and np_ != lo and np_.lower() == lo.lower() and not any(c.isalpha() for c in s):
                vs.setdefault(("case", "cs-changes-nonalpha"), {"law": "case", "s": s})
            if ok2 and any(c.isalpha() and c.isascii() for c in s) and np_ == lo:
                vs.setdefault(("case", "cs-folds"), {"law": "case", "s": s, "norm": np_})
            if [c for c in np_ if c != sep] != [c for c in s.replace(cfg["alt"] or sep, sep) if c != sep]:
                vs.setdefault(("case", "cs-alters-chars"), {"law": "case", "s": s, "norm": np_})
        else:
            if np_ != np_.lower():
                vs.setdefault(("case", "ci-not-folded"), {"law": "case", "s": s, "norm": np_})
            ok2, dsp = _call(vs, "case", p.normalize_path, s, True)
            if ok2 and dsp.lower() != np_:
                # the display form differs from the plain form only by the case of the leaf
                vs.setdefault(("case", "display-vs-plain"), {"law": "case", "s": s, "display": dsp, "plain": np_})
            if ok2:
                leaf_in = p.basename(p.normalize_path_separators(s))
                if p.basename(dsp) != leaf_in:
                    vs.setdefault(("case", "display-leaf"), {"law": "case", "s": s, "display": dsp, "leaf": leaf_in})
                if p.dirname(dsp) != p.dirname(dsp).lower():
                    vs.setdefault(("case", "display-dir-not-folded"), {"law": "case", "s": s, "display": dsp})


def binary(p, cfg, F, rels, folders, vs):
    sep = cfg["sep"]
    for r in rels:
        ok, t = _call(vs, "subpath", p.join, F, r)
        if not ok:
            continue
        ok, rel = _call(vs, "subpath", p.is_subpath, F, t)
        want = sep + r
        if ok and rel != want:
            vs.setdefault(("subpath", "relative-part"), {"law": "subpath", "folder": F, "rel": r, "joined": t, "got": rel,
                                                         "want": want})
        ok, st = _call(vs, "subpath", p.is_subpath, F, t, True)
        if ok and st != want:
            vs.setdefault(("subpath", "strict"), {"law": "subpath", "folder": F, "rel": r, "got": st})
    # other spellings of the same folder (trailing / repeated / alternate separators) name the same folder
    if F != sep:
        alt = cfg["alt"]
        # (what normalize_path_separators documents: alternate -> primary, trailing separators stripped; repeated separators
        #  INSIDE a folder argument are not collapsed by is_subpath and are left out of the domain, like in section 10.3)
        variants = [F + sep, F + sep + sep]
        if alt:
            variants += [F + alt, F + sep + alt, sep + F[len(sep):].replace(sep, alt)]
        for V in sorted(set(variants) - {F}):
            for r in rels[::5]:
                t = p.join(F, r)
                ok, rel = _call(vs, "subpath-spelling", p.is_subpath, V, t)
                if ok and rel != sep + r:
                    vs.setdefault(("subpath-spelling", "relative-part"), {"law": "subpath-spelling", "folder": V, "same_as": F,
                                                                          "target": t, "got": rel, "want": sep + r})
                ok, got = _call(vs, "replace-spelling", p.replace_path, t, V, F)
                if ok and got != t:
                    vs.setdefault(("replace-spelling", "moved-part"), {"law": "replace-spelling", "path": t, "from": V, "to": F,
                                                                       "got": got})
            for x in ("a", "ab", "a" + sep + "x", "A" + sep + "x", "ab" + sep + "x", "abc" + sep + "x"):
                ok, rel = _call(vs, "prefix-sibling-spelling", p.is_subpath, V, F + x)
                if ok and rel:
                    vs.setdefault(("prefix-sibling-spelling", "accepted"), {"law": "prefix-sibling-spelling", "folder": V,
                                                                            "target": F + x, "got": rel})
    if F != sep:
        for x in ("a", "A", ".", " ", "b/a".replace("/", sep)):
            ok, rel = _call(vs, "prefix-sibling", p.is_subpath, F, F + x)
            if ok and rel:
                vs.setdefault(("prefix-sibling", "accepted"), {"law": "prefix-sibling", "folder": F, "target": F + x,
                                                               "got": rel})
        ok, same = _call(vs, "subpath-self", p.is_subpath, F, F)
        if ok and same != sep:
            vs.setdefault(("subpath-self", "not-sep"), {"law": "subpath-self", "folder": F, "got": same})
        ok, same = _call(vs, "subpath-self", p.is_subpath, F, F, True)
        if ok and same:
            vs.setdefault(("subpath-self", "strict-accepts"), {"law": "subpath-self", "folder": F, "got": same})


def replace_law(p, cfg, F, G, rels, vs):
    for r in rels:
        t = p.join(F, r)
        ok, got = _call(vs, "replace", p.replace_path, t, F, G)
        if ok:
            want = p.join(G, r)
            # into the root folder the result may carry a doubled leading separator: equivalent, not identical
            same = (got == want) if G != cfg["sep"] else (p.normalize_path(got) == p.normalize_path(want))
            if not same:
                vs.setdefault(("replace", "moved-part"), {"law": "replace", "path": t, "from": F, "to": G, "got": got,
                                                          "want": want})


def match_laws(p, cfg, strs, vs):
    norm = {}
    for s in strs:
        try:
            norm[s] = p.normalize_path(s)
        except Exception:
            norm[s] = ("err", s)
    for a in strs:
        for b in strs:
            ok, m = _call(vs, "match", p.paths_match, a, b)
            if not ok:
                continue
            if bool(m) != (norm[a] == norm[b]):
                vs.setdefault(("match", "disagrees-with-normalize"), {"law": "match", "a": a, "b": b, "match": m})
            ok2, m2 = _call(vs, "match", p.paths_match, b, a)
            if ok2 and bool(m2) != bool(m):
                vs.setdefault(("match", "asymmetric"), {"law": "match", "a": a, "b": b})
            # display-aware equality: implies plain equality, and holds whenever the paths are equal and spell the leaf alike
            ok3, md = _call(vs, "match", p.paths_match, a, b, True)
            if ok3:
                if md and not m:
                    vs.setdefault(("match", "display-match-without-match"), {"law": "match", "a": a, "b": b})
                if m and not md:
                    try:
                        same_leaf = p.basename(p.normalize_path_separators(a)) == p.basename(p.normalize_path_separators(b))
                    except Exception:
                        same_leaf = False
                    if same_leaf:
                        vs.setdefault(("match", "display-mismatch-same-leaf"), {"law": "match", "a": a, "b": b})
    # transitivity follows from agreement with an equality; checked on classes
    return len(strs) ** 2


def translate_laws(cfg, rels, outs, vs):
    """default translate on two mock providers with asymmetric case modes"""
    n = 0
    for lcs, rcs in ((True, True), (True, False), (False, True), (False, False)):
        l = MockProvider(False, lcs)
        r = MockProvider(False, rcs)
        l.connection_id, r.connection_id = "L", "R"
        l.connect({"k": 1})
        r.connect({"k": 1})
        cs = CloudSync((l, r), roots=("/local", "/remote/sub"), sleep=None)
        try:
            for rel in rels:
                for side, root in ((0, "/local"), (1, "/remote/sub")):
                    p = cs.providers[side].join(root, rel)
                    n += 1
                    ok, other = _call(vs, "translate", cs.translate, 1 - side, p)
                    if not ok:
                        continue
                    if not other:
                        vs.setdefault(("translate", "inside-declined"), {"law": "translate", "path": p, "side": side})
                        continue
                    ok, back = _call(vs, "translate", cs.translate, side, other)
                    if ok and (not back or not cs.providers[side].paths_match(back, p)):
                        vs.setdefault(("translate", "round-trip"), {"law": "translate", "path": p, "there": other,
                                                                    "back": back, "modes": [lcs, rcs]})
            # the root spelled in another case is inside exactly when THAT side's provider is case-insensitive
            for rel in rels[::7]:
                for side, root in ((0, "/local"), (1, "/remote/sub")):
                    prov = cs.providers[side]
                    p = prov.join(root.upper(), rel)
                    n += 1
                    ok, other = _call(vs, "translate", cs.translate, 1 - side, p)
                    if not ok:
                        continue
                    if prov.case_sensitive and other:
                        vs.setdefault(("translate", "other-case-root-accepted-by-cs-side"),
                                      {"law": "translate", "path": p, "side": side, "got": other, "modes": [lcs, rcs]})
                    if not prov.case_sensitive:
                        if not other:
                            vs.setdefault(("translate", "other-case-root-declined-by-ci-side"),
                                          {"law": "translate", "path": p, "side": side, "modes": [lcs, rcs]})
                        else:
                            ok, back = _call(vs, "translate", cs.translate, side, other)
                            if ok and (not back or not prov.paths_match(back, p)):
                                vs.setdefault(("translate", "round-trip-other-case-root"),
                                              {"law": "translate", "path": p, "there": other, "back": back, "modes": [lcs, rcs]})
            for o in outs:
                for side in (0, 1):
                    n += 1
                    ok, t = _call(vs, "translate", cs.translate, 1 - side, o)
                    if ok and t:
                        root = ("/local", "/remote/sub")[side]
                        vs.setdefault(("translate", "outside-accepted"), {"law": "translate", "path": o, "side": side,
                                                                          "root": root, "got": t})
        finally:
            cs.done()
            env.release_guard((l, r))
    return n


def run_job(job):
    cfg = job["cfg"]
    p = mkprov(cfg)
    vs = {}
    n = 0
    kind = job["kind"]
    sep = cfg["sep"]
    alpha = [c for c in ALPHA if not (c == "\\" and cfg["alt"] is None and sep == "/")]
    if kind == "unary":
        first = job["first"]
        for s in strings(job["len"] - 1, alpha):
            unary(p, cfg, first + s, vs)
            n += 1
        if first == alpha[0]:
            unary(p, cfg, "", vs)
    else:
        short = list(strings(job["len"], alpha))
        import re
        canon = lambda x: p.join(*[c for c in re.split("[" + re.escape(sep) + "]+", p.normalize_path_separators(x) or "") if c])
        folders = sorted({canon(s) for s in short})
        rels = sorted({canon(s)[len(sep):] for s in short} - {""})
        if kind == "binary":
            for F in folders[job["lo"]:job["hi"]]:
                binary(p, cfg, F, rels, folders, vs)
                n += len(rels)
        elif kind == "replace":
            rsm = rels[::max(1, len(rels) // 40)]
            for F in folders[job["lo"]:job["hi"]]:
                for G in folders:
                    replace_law(p, cfg, F, G, rsm, vs)
                    n += len(rsm)
        elif kind == "match":
            n += match_laws(p, cfg, short[job["lo"]:job["hi"]] + short[::97], vs)
        elif kind == "translate":
            outs = ["/", "/loca", "/localX/y", "/local2", "/remote", "/remote/su", "/remote/subX", "/remote/sub2/a",
                    "/other/x", "/x/local/a", "/LOCALX", "/remote/SUBx"]
            n += translate_laws(cfg, rels, outs, vs)
    viols = [viol(k[0], k[1], d) for k, d in vs.items()]
    for v in viols:
        v["hist"] = [v["detail"]]
    return {"states": n, "transitions": n, "evaluations": n, "traces": n, "nontrivial": n, "terminals": 0,
            "capped": False, "violations": viols, "outcomes": [],
            "sample": {"cfg": cfg["name"], "kind": kind, "example": job.get("first", "") + "a/ A"}}


def jobs(tier):
    L = 5 if tier == "quick" else 6
    L2 = 3 if tier == "quick" else 4
    out = []
    for cfg in CONFIGS:
        for c in ALPHA:
            if c == "\\" and cfg["alt"] is None and cfg["sep"] == "/":
                continue
            out.append({"cfg": cfg, "kind": "unary", "first": c, "len": L})
        nf = 8 ** L2 + 100
        step = 40 if tier == "quick" else 60
        for lo in range(0, 700 if tier == "quick" else 5000, step):
            out.append({"cfg": cfg, "kind": "binary", "lo": lo, "hi": lo + step, "len": L2})
            out.append({"cfg": cfg, "kind": "replace", "lo": lo, "hi": lo + step, "len": L2})
        for lo in range(0, 8 ** L2 + 600, 150):
            out.append({"cfg": cfg, "kind": "match", "lo": lo, "hi": lo + 150, "len": L2})
    out.append({"cfg": CONFIGS[0], "kind": "translate", "len": L2})
    return out


def main(tier):
    rep = report.Report(PROP, tier,
                        rule="every string of length <=5 (6 thorough) over {/,\\,a,A,b,.,space,e-acute} for the unary laws; "
                             "folders = normalised absolute images of all strings <=3 (4), relative parts likewise, all "
                             "pairs for subpath/prefix-sibling/replace/match laws; 4 helper configurations; translate "
                             "round trip on 3 case-mode pairs. Count = law evaluations; every evaluated tuple is distinct",
                        technique="bounded exhaustive input enumeration (depth-1 state space) against algebraic laws",
                        assumptions=["the 'long random paths' clause of the quantifier is sampling and is not claimed"])
    rep.add_results(report.pmap(__name__, jobs(tier), progress=200))
    return rep.finish()


def replay(path):
    import json
    d = json.load(open(path))
    print(json.dumps(d, indent=1))
    r = run_job(d["job"])
    hit = [v for v in r["violations"] if v["kind"] == d["kind"] and v["sig"] == d["sig"]]
    print("reproduced" if hit else "not reproduced", json.dumps([v["detail"] for v in hit], default=repr))
    return 1 if hit else 0
