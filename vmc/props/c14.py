"""C14 events are hints: duplicated, delayed, reordered, replayed events change nothing (E1 + mangling enumeration)."""
import itertools
import json
from dataclasses import replace

from .. import report, alphabet as A
from ..world import World, BASES, NoQuiescence, _show_tree, CFGS
from ..seqx import viol, digest, job_id
from .base import Driver
from . import products as P
from .c06 import histories
from cloudsync import Event, FILE, DIRECTORY

PROP = "C14"


def mangle(evs, plan):
    kind = plan[0]
    if kind == "dup-adjacent":
        out = []
        for i, e in enumerate(evs):
            out.append(e)
            if i in plan[1]:
                out.append(replace(e))
        return out
    if kind == "dup-late":
        return list(evs) + [replace(evs[i]) for i in plan[1] if i < len(evs)]
    if kind == "perm":
        return [evs[i] for i in plan[1]]
    if kind == "droppath":
        return [replace(e, path=None) if i in plan[1] else e for i, e in enumerate(evs)]
    if kind == "noid":
        # an extra event that carries no id, and one for an id that never existed: both must be ignored
        extra = [Event(FILE, None, "/nowhere/x", b"h", True), Event(FILE, "never-existed", None, None, False)]
        return extra[:1] + list(evs) + extra[1:]
    if kind == "none":
        return list(evs)
    raise ValueError(kind)


def install(w, side, plan):
    import collections
    p = w.provs[side]
    inner = p.events
    st = {"done": False, "n": 0}
    buf = collections.deque()

    def events():
        new = list(inner())
        if new and not st["done"]:
            st["done"] = True
            st["n"] = len(new)
            new = mangle(new, plan)
        buf.extend(new)
        while buf:              # undelivered events stay queued for the next (per-event) delivery
            yield buf.popleft()
    p.events = events
    return st


class D(Driver):
    prop = PROP

    def make_world(self, job):
        w = World(job)
        P.install_spurious_hook(w)
        return w


DRIVER = D()


def jobs(tier):
    out = []
    cfgs = ["oo", "po"] if tier == "quick" else ["oo", "po", "ci", "pp", "op"]
    hs = histories()
    for cfg in cfgs:
        for i, sc in enumerate(hs):
            if tier == "quick" and len(sc[0]) + len(sc[1]) == 2 and i % 3:
                continue
            out.append({"prop": PROP, "cfg": cfg, "order": "asc", "base": "B1", "scripts": A.stamp(sc),
                        "opts": {"users_first": True}})
    # name re-use (same name, new object): remove and re-create, with the events delivered in any order
    reuse = [[["delete", "m"], ["mkdir", "m"]], [["delete", "a"], ["create", "a"]], [["rename", "a", "x"], ["create", "a"]],
             [["rename", "m", "m2"], ["mkdir", "m"]], [["delete", "m"], ["create", "m"]]]
    for cfg in cfgs:
        for h in reuse:
            for sc in ([h, []], [[], h]):
                out.append({"prop": PROP, "cfg": cfg, "order": "asc", "base": "B4", "scripts": A.stamp(sc),
                            "opts": {"users_first": True}})
    for cfg in (["oo", "po", "op"] if tier == "quick" else ["oo", "po", "op", "pp", "ci", "pci"]):
        for ph in REPLAY_HISTS:
            for side in (0, 1):
                out.append({"prop": PROP, "cfg": cfg, "order": "asc", "base": "B1", "scripts": [[], []], "phases": [ph[0], ph[1]],
                            "side": side, "opts": {}})
    return out


def plans_for(n, id_stable, supplies_path):
    ps = []
    idx = list(range(n))
    for r in range(1, n + 1):
        for sub in itertools.combinations(idx, r):
            ps.append(("dup-adjacent", list(sub)))
            ps.append(("dup-late", list(sub)))
    if id_stable and n >= 2:
        if n <= 4:
            for perm in itertools.permutations(idx):
                if list(perm) != idx:
                    ps.append(("perm", list(perm)))
        else:
            ps.append(("perm", idx[::-1]))
            for i in range(n - 1):
                q = list(idx)
                q[i], q[i + 1] = q[i + 1], q[i]
                ps.append(("perm", q))
    if supplies_path and id_stable:
        for r in range(1, n + 1):
            for sub in itertools.combinations(idx, r):
                ps.append(("droppath", list(sub)))
    ps.append(("noid",))
    return ps


def run_variant(job, side, plan, walk=None, per_event=False):
    j = dict(job)
    if per_event:
        j = dict(job, opts=dict(job["opts"], per_event=True))
    w = DRIVER.make_world(j)
    try:
        st = install(w, side, plan) if plan else None
        # users first
        while w.pos[0] < len(w.scripts[0]):
            w.user(0)
        while w.pos[1] < len(w.scripts[1]):
            w.user(1)
        if walk == "before":
            w.cs.walk(side)
        try:
            if walk == "middle":
                for a in ("IL", "IR", "S"):
                    w.step(a)
                w.cs.walk(side)
            w.settle(limit=150)
            if walk == "after":
                w.cs.walk(side)
                w.settle(limit=150)
        except NoQuiescence:
            return {"noquiesce": True}, (st or {}).get("n", 0)
        jd = P.judge(w)
        jd["spurious"] = [list(map(str, x)) for x in w.spurious]
        jd["engine_writes"] = len(w.engine_writes)
        return jd, (st or {}).get("n", 0)
    finally:
        w.close()


# ---- stale replays: events of an EARLIER, fully processed phase are delivered again together with the next batch
REPLAY_HISTS = [
    # (phase 1 ops, phase 2 ops) on one side; "1"/"2" are the base contents of a and d/b (same bytes => same hash)
    ([["create", "t", "1"], ["delete", "t"]], [["delete", "a"]]),
    ([["create", "t", "T1"], ["delete", "t"]], [["create", "t", "T2"]]),
    ([["delete", "d/b"]], [["create", "d/b", "N1"]]),
    ([["write", "a", "W1"]], [["delete", "a"]]),
    ([["rename", "a", "c"]], [["write", "c", "W2"]]),
    ([["rename", "a", "c"]], [["rename", "c", "a"]]),
    ([["mkdir", "m"], ["delete", "m"]], [["create", "m", "F1"]]),
    ([["create", "t", "2"]], [["delete", "t"], ["delete", "d/b"]]),
    ([["delete", "a"]], [["create", "a", "N2"]]),
    ([["delete", "d/b"], ["delete", "d"]], [["mkdir", "d"], ["create", "d/b", "N3"]]),
]


def run_replay_variant(job, plan):
    """plan = None (no replay) | (with_hash, placement, subset) ; returns judge dict"""
    side = job["side"]
    w = DRIVER.make_world(dict(job, scripts=[[], []]))
    try:
        p = w.provs[side]
        inner = p.events
        old = []
        st = {"phase": 1, "done": False}

        def events():
            new = list(inner())
            if st["phase"] == 1:
                for e in new:
                    h = None
                    o = p._mock_fs.get(e.oid)
                    if o is not None and o.contents is not None and e.exists and o.type == o.FILE:
                        h = o.hash()        # (the object may be gone again by now: the event described it while it lived)
                    old.append((e, h))
                return iter(new)
            if plan and new and not st["done"]:
                st["done"] = True
                if plan[0] == "droppath":
                    st["n2"] = len(new)
                    new = [replace(e, path=None) if i in plan[1] else e for i, e in enumerate(new)]
                else:
                    with_hash, placement, subset = plan
                    rep = [replace(e, hash=(h if with_hash else e.hash)) for i, (e, h) in enumerate(old) if i in subset]
                    new = rep + new if placement == "before" else new + rep
            elif new and not st["done"] and st["phase"] == 2:
                st["n2"] = len(new)
            return iter(new)
        p.events = events
        ph1, ph2 = job["phases"]
        w.scripts = [[], []]
        w.scripts[side] = [list(op) for op in ph1] + [list(op) for op in ph2]
        w.pos = [0, 0]
        for _ in ph1:
            w.user(side)
        try:
            w.settle(limit=150)
            st["phase"] = 2
            for _ in ph2:
                w.user(side)
            w.settle(limit=150)
        except NoQuiescence:
            return {"noquiesce": True}, len(old)
        jd = P.judge(w)
        jd["spurious"] = [list(map(str, x)) for x in w.spurious]
        jd["n2"] = st.get("n2", 0)
        return jd, len(old)
    finally:
        w.close()


def run_replay_job(job):
    vs = {}
    base, n_old = run_replay_variant(job, None)
    if base.get("noquiesce") or not base["converged"] or base["lost"]:
        return _result(job, 1, 1, {}, "base-fails (see C01/C02)")
    n_eval = 0
    idx = list(range(min(n_old, 5)))
    subsets = [list(c) for r in range(1, len(idx) + 1) for c in itertools.combinations(idx, r)]
    for with_hash in (False, True):
        for placement in ("before", "after"):
            for sub in subsets:
                res, _ = run_replay_variant(job, (with_hash, placement, sub))
                n_eval += 1
                bad = None
                if res.get("noquiesce"):
                    bad = ("noquiesce", {})
                elif res.get("busy") and not base.get("busy"):
                    bad = ("busy", {"pending": res["busy"]})
                elif res["trees"] != base["trees"]:
                    bad = ("differs-from-prompt", res["trees"])
                elif [a for a in res["artefacts"] if a not in base["artefacts"]]:
                    bad = ("artefact", res["trees"])
                elif not base["spurious"] and res["spurious"]:
                    bad = ("spurious-transfer", {"calls": res["spurious"][:3]})
                if bad is not None:
                    tag = "replay%s-%s" % ("+hash" if with_hash else "", placement)
                    sig = "%s:%s:%s:%s" % ("LR"[job["side"]], tag, bad[0], digest(json.dumps(bad[1], sort_keys=True, default=repr)))
                    if sig not in vs:
                        vs[sig] = viol("mangle-" + bad[0], sig, {"side": job["side"], "with_hash": with_hash, "placement": placement,
                                                              "replayed": sub, "observed": bad[1], "prompt": base["trees"]})
                        vs[sig]["hist"] = ["PHASE1", "SETTLE", "PHASE2", "REPLAY(%s)" % json.dumps([with_hash, placement, sub]), "SETTLE"]
    # the events of the second phase arrive without their path (every non-empty subset)
    n2 = min(base.get("n2", 0), 4)
    for sub in [list(c) for r in range(1, n2 + 1) for c in itertools.combinations(range(n2), r)]:
        res, _ = run_replay_variant(job, ("droppath", sub))
        n_eval += 1
        bad = None
        if res.get("noquiesce"):
            bad = ("noquiesce", {})
        elif res.get("busy") and not base.get("busy"):
            bad = ("busy", {"pending": res["busy"]})
        elif res["trees"] != base["trees"]:
            bad = ("differs-from-prompt", res["trees"])
        elif [a for a in res["artefacts"] if a not in base["artefacts"]]:
            bad = ("artefact", res["trees"])
        if bad is not None:
            sig = "%s:droppath-phase2:%s:%s" % ("LR"[job["side"]], bad[0], digest(json.dumps(bad[1], sort_keys=True, default=repr)))
            if sig not in vs:
                vs[sig] = viol("mangle-" + bad[0], sig, {"side": job["side"], "dropped_paths_of": sub, "observed": bad[1],
                                                      "prompt": base["trees"]})
                vs[sig]["hist"] = ["PHASE1", "SETTLE", "PHASE2", "DROPPATH(%s)" % json.dumps(sub), "SETTLE"]
    return _result(job, n_eval, 0, vs, None)


def run_job(job):
    if job.get("phases"):
        return run_replay_job(job)
    vs = {}
    n_eval = 0
    base, _ = run_variant(job, 0, None)
    if base.get("noquiesce") or not base["converged"] or base["lost"]:
        return _result(job, 1, 1, {}, "base-fails (see C01/C02)")
    cfg = CFGS[job["cfg"]]

    def compare(name, res):
        if res.get("noquiesce"):
            return ("noquiesce", {})
        if res.get("busy") and not base.get("busy"):
            return ("busy", {"pending": res["busy"]})
        if res["trees"] != base["trees"]:
            return ("differs-from-prompt", res["trees"])
        if [a for a in res["artefacts"] if a not in base["artefacts"]]:
            return ("artefact", res["trees"])
        if not base["spurious"] and res["spurious"]:
            return ("spurious-transfer", {"calls": res["spurious"][:3]})
        return None
    for side in (0, 1):
        # how many events does this side's first delivery carry?
        _, n = run_variant(job, side, ("none",))
        oid_is_path, _cs, filt = cfg[side][:3]
        id_stable = not oid_is_path
        plans = plans_for(min(n, 6), id_stable, filt) if n else [("noid",)]
        variants = [(p, None, False) for p in plans]
        variants += [(("none",), wk, False) for wk in ("before", "middle", "after")]
        variants += [(("none",), None, True)]
        variants += [(("dup-late", list(range(min(n, 6)))), "middle", True)] if n else []
        for plan, walk, pe in variants:
            res, _ = run_variant(job, side, plan, walk=walk, per_event=pe)
            n_eval += 1
            bad = compare(plan, res)
            if bad is not None:
                tag = "%s%s%s" % (plan[0], ("+walk-" + walk) if walk else "", "+per-event" if pe else "")
                sig = "%s:%s:%s:%s" % ("LR"[side], tag, bad[0], digest(json.dumps(bad[1], sort_keys=True, default=repr)))
                if sig not in vs:
                    vs[sig] = viol("mangle-" + bad[0], sig, {"side": side, "plan": list(plan), "walk": walk, "per_event": pe,
                                                          "observed": bad[1], "prompt": base["trees"]})
                    vs[sig]["hist"] = ["USERS-FIRST", "MANGLE(%s)" % json.dumps(plan), "SETTLE"]
    return _result(job, n_eval, 0, vs, None)


def _result(job, n_eval, gated, vs, note):
    return {"states": max(n_eval * 6, 1), "transitions": max(n_eval * 6, 1), "evaluations": n_eval, "traces": n_eval,
            "nontrivial": n_eval, "terminals": n_eval, "capped": False, "violations": list(vs.values()),
            "outcomes": [], "sample": {"job": job_id(job), "note": note},
            "extra": {"base_runs_gated_out": gated, "base_runs": 1}}


def main(tier):
    rep = report.Report(PROP, tier,
                        rule="histories of <=2 operations (one-sided and disjoint 1+1), all user operations first, then for each side "
                             "EVERY mangling of the first event delivery: every non-empty subset of events duplicated (adjacent, and "
                             "re-delivered late), every permutation of <=4 events (reversal and adjacent swaps above) on id-stable "
                             "sides, every subset of path fields dropped where the flavour supplies one, an id-less event and an "
                             "event for an unknown id injected, a full walk queued before/in the middle/after, per-event batching; "
                             "oracle = same quiet trees as the unmangled prompt run, no new artefact, no spurious transfer. "
                             "evaluations = mangled executions; states/transitions are lower bounds (6 engine steps per execution)",
                        technique="exhaustive enumeration of event-stream manglings on executions of the implementation, compared "
                                  "differentially with the unmangled execution")
    rep.add_results(report.pmap(__name__, jobs(tier), progress=200))
    return rep.finish()


def replay(path):
    d = json.load(open(path))
    r = run_job(d["job"])
    hit = [v for v in r["violations"] if v["sig"] == d["sig"]]
    print(json.dumps(d["detail"], indent=1, default=repr))
    print("reproduced" if hit else "not reproduced")
    return 1 if hit else 0
