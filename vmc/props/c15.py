"""C15 thread safety: state only touched under its lock (E1 monitor); threaded runs converge (E3)."""
import json
import sys
import time
import threading as _th

from .. import env
from .. import report, thrx, alphabet as A
from ..seqx import viol, digest, job_id
from ..world import World, ROOTS, NoQuiescence, _show_tree, trees_equal_mod_conflicted
from .base import Driver, run_explore
from .c11 import invariants
import cloudsync.runnable as R
import cloudsync.sync.state as S
from cloudsync import LOCAL, REMOTE
import cloudsync.exceptions as ex

PROP = "C15"

# ------------------------------------------------------------------------------------------------ (a) lock discipline
MUTATORS = ("updated", "mark_changed", "storage_commit", "finished", "split", "forget", "update", "update_entry",
            "forget_oid")
_installed = False
SINK = {"log": None}


def install_monitor():
    """class level wrappers on SyncState: every mutation entry point records the caller when the lock is not owned"""
    global _installed
    if _installed:
        return
    _installed = True
    for name in MUTATORS:
        orig = getattr(S.SyncState, name)

        def make(orig, name):
            def wrapper(self, *a, **kw):
                log = SINK["log"]
                if log is not None and not getattr(self, "_loading", False):
                    lk = self.lock
                    owned = lk._is_owned() if hasattr(lk, "_is_owned") else True
                    if not owned:
                        f = sys._getframe(1)
                        site = None
                        depth = 0
                        while f is not None and depth < 12:
                            fn = f.f_code.co_filename
                            if "/cloudsync/" in fn and "/sync/state.py" not in fn:
                                site = "%s:%s" % (fn.rsplit("/cloudsync/", 1)[1], f.f_code.co_name)
                                break
                            f = f.f_back
                            depth += 1
                        log.add((name, site or "state.py"))
                return orig(self, *a, **kw)
            wrapper.__name__ = name
            return wrapper
        setattr(S.SyncState, name, make(orig, name))


class Mon(Driver):
    prop = PROP

    def make_world(self, job):
        install_monitor()
        w = World(job)
        w.unlocked = set()
        w.lock0 = w.cs.state.lock

        # an application thread may ask "how much is pending?" at ANY moment: query action Q = change_count + busy
        def action(world, a):
            world.in_engine = "APP"
            try:
                world.cs.change_count
                world.cs.busy
                world.cs.smgr.change_count(unverified=True)
                cc = world.cs.change_count
                if callable(cc):            # (CloudSync.change_count hands out the manager's method)
                    cc()
                world.cs.smgr.change_count(0)
                world.cs.smgr.change_count(1)
            except ex.CloudException:
                pass
            finally:
                world.in_engine = None
        w.hooks["actions"] = lambda world: ["Q"]
        w.hooks["action"] = action
        return w

    def pre_step(self, w, a):
        SINK["log"] = w.unlocked
        return len(w.unlocked)

    def on_step(self, w, a, pre):
        SINK["log"] = None
        vs = []
        if len(w.unlocked) > pre:
            for (name, site) in sorted(w.unlocked):
                vs.append(viol("unlocked-mutation", "%s<-%s" % (name, site), {"action": a}))
            w.unlocked.clear()
        if w.cs.state.lock is not w.lock0:
            vs.append(viol("state-lock-replaced", a, {"action": a}))
            w.lock0 = w.cs.state.lock
        return vs

    def on_terminal(self, w):
        return self.observe(w), []


DRIVER = Mon()


def monitor_jobs(tier):
    from .c01 import histories
    hs = histories()
    out = []
    cfgs = ["oo", "po"] if tier == "quick" else ["oo", "po", "pp"]
    for cfg in cfgs:
        for i, sc in enumerate(hs):
            if tier == "quick" and i % 5:
                continue
            out.append({"prop": PROP, "cfg": cfg, "order": "asc", "base": "B1", "scripts": A.stamp(sc),
                        "mode": {"k": 1 if tier == "quick" else 2, "cap": 600, "depth": 60, "audit": 0}})
    # accounts whose folder-delete events carry no id (matched by path in the event manager): folder histories
    from .c03 import OT_ALPHA
    from ..world import BASES
    for h in A.valid_histories(BASES["B4"], OT_ALPHA, 2):
        if any(op[0] == "delete" for op in h):
            for sc in ([h, []], [[], h]):
                out.append({"prop": PROP, "cfg": "ot", "order": "asc", "base": "B4", "scripts": A.stamp(sc),
                            "mode": {"k": 1 if tier == "quick" else 2, "cap": 600, "depth": 60, "audit": 0}})
    return out


def run_entry_points(job):
    """public entry points an application thread may call: every state mutation they make must hold the lock"""
    install_monitor()
    cfg = job["cfg"]
    j = {"cfg": cfg, "order": "asc", "base": [["create", "r1", "1"], ["mkdir", "d"], ["create", "d/r2", "2"]],
         "scripts": [[], []], "opts": {"smart": bool(job.get("smart")), "check_base": False, "base_side": 1}}
    w = World(j)
    found = {}
    n = 0
    try:
        cs = w.cs
        calls = []
        if job.get("smart"):
            calls = [("smart_sync_path", lambda: cs.smart_sync_path("/local/r1", LOCAL)),
                     ("smart_listdir_path", lambda: list(cs.smart_listdir_path("/local"))),
                     ("smart_info_path", lambda: cs.smart_info_path("/local/r1")),
                     ("smart_sync_oid", lambda: cs.smart_sync_oid(w.provs[1].info_path("/remote/d/r2").oid)),
                     ("smart_unsync_path", lambda: cs.smart_unsync_path("/local/r1", LOCAL)),
                     ("smart_unsync_oid", lambda: cs.smart_unsync_oid(w.provs[1].info_path("/remote/d/r2").oid)),
                     ("smart_delete_path", lambda: cs.smart_delete_path("local-oid-x", "/local/d/r2"))]
        calls += [("change_count", lambda: cs.change_count), ("busy", lambda: cs.busy),
                  ("walk", lambda: cs.walk()), ("forget", lambda: cs.forget())]
        lock0 = cs.state.lock
        for name, fn in calls:
            log = set()
            SINK["log"] = log
            n += 1
            try:
                fn()
            except (ex.CloudException, AssertionError):
                pass
            finally:
                SINK["log"] = None
            if cs.state.lock is not lock0:
                # there is ONE state lock for the life of the engine: a thread still holding or waiting for the old object
                # no longer excludes anybody who takes the new one
                found.setdefault((name, "state.lock-replaced"), True)
                lock0 = cs.state.lock
            for (mut, site) in sorted(log):
                found.setdefault((name, "%s<-%s" % (mut, site)), True)
            try:
                w.settle(limit=60)
            except NoQuiescence:
                pass
    finally:
        w.close()
    viols = []
    for (name, sig) in found:
        v = viol("entry-point-unlocked:" + name, sig, {"entry_point": name})
        v["hist"] = [name]
        viols.append(v)
    return {"states": n, "transitions": n, "evaluations": n, "traces": n, "nontrivial": n, "terminals": 0, "capped": False,
            "violations": viols, "outcomes": [], "sample": {"entry_points": [c[0] for c in calls]}}


def run_faultmon(job):
    """lock ownership on the error paths: every engine API call failed once (temporary / disconnected / out of space)"""
    from . import c10
    install_monitor()
    drv = c10.DRIVER
    w = drv.make_world(job)
    try:
        hist = w.prompt_run()
        N = w.api_count
    except NoQuiescence:
        return {"states": 1, "transitions": 1, "evaluations": 0, "violations": [], "outcomes": [], "capped": False}
    finally:
        w.close()
    found = {}
    n = 0
    for k in range(1, N + 1):
        for kind in ("temporary", "disconnected", "nospace"):
            w = drv.make_world(job)
            log = set()
            try:
                w.plan = [(k, kind, "before")]
                SINK["log"] = log
                for a in hist:
                    if a in w.actions():
                        w.act(a)
                try:
                    w.settle(limit=80)
                except NoQuiescence:
                    pass
                n += 1
            finally:
                SINK["log"] = None
                w.close()
            for (mut, site) in log:
                found.setdefault("%s<-%s" % (mut, site), (k, kind))
    viols = []
    for sig, (k, kind) in found.items():
        v = viol("unlocked-mutation-on-error-path", sig, {"fault_at_call": k, "kind": kind, "base_hist": hist})
        v["hist"] = hist + ["FAULT(%s@%d)" % (kind, k)]
        viols.append(v)
    return {"states": n * len(hist), "transitions": n * len(hist), "evaluations": n, "traces": n, "nontrivial": n,
            "terminals": n, "capped": False, "violations": viols, "outcomes": [],
            "sample": {"faultmon": job_id(job), "base_hist": hist}}


# ------------------------------------------------------------------------------------------------ (b) threaded runs
SCEN = {
    "mkdir+create": ([["mkdir", "d2"]], [["create", "b", "R1"]]),
    "write+rename": ([["write", "a", "L1"]], [["rename", "d/b", "b"]]),
    "create+delete": ([["create", "c", "L1"]], [["delete", "a"]]),
}


def run_threaded(name, prefix, cfg="oo"):
    R.threading = thrx.ShimThreading
    R.time = thrx.ShimTime
    install_monitor()
    sl, sr = SCEN[name]
    job = {"cfg": cfg, "order": "asc", "base": "B1", "scripts": A.stamp([sl, sr]), "opts": {"aging": 0}}
    w = World(job)
    s = thrx.Sched(prefix, step_limit=3000)
    thrx.CUR = s
    unlocked = set()
    try:
        cs = w.cs
        cs.state.lock = thrx.ShimRLock()
        for p in w.provs:
            p._lock = thrx.ShimRLock()

        def loop(m, n):
            c = [0]

            def until():
                c[0] += 1
                return c[0] >= n
            return lambda: m.run(until=until, sleep=0.001)

        def app():
            w.user(0)
            w.user(1)
        s.spawn("sync", loop(cs.smgr, 3))
        s.spawn("ev-local", loop(cs.emgrs[0], 2))
        s.spawn("ev-remote", loop(cs.emgrs[1], 2))
        s.spawn("app", app)
        SINK["log"] = unlocked
        s.run()
        SINK["log"] = None
        vs = []
        for t in s.threads:
            if t.exc is not None:
                vs.append(viol("thread-exception", "%s:%s" % (t.name, type(t.exc).__name__), {"exc": repr(t.exc)}))
        if s.deadlock:
            vs.append(viol("deadlock", name, {}))
        for (mut, site) in sorted(unlocked):
            vs.append(viol("unlocked-mutation", "%s<-%s" % (mut, site), {"scenario": name}))
        obs = ("aborted",)
        if not s.deadlock and not s.horizon:
            # quiesce sequentially and apply the C01 / C11 oracles to the whole run
            cs.state.lock = _th.RLock()
            for p in w.provs:
                p._lock = _th.RLock()
            thrx.CUR = None
            R.threading = _th
            R.time = env.FAKE_TIME
            for m in (cs.emgrs[0], cs.emgrs[1], cs.smgr):
                m._Runnable__stopped = False
                m._Runnable__stopping = False
            try:
                w.settle(limit=150)
                tl, tr = w.tree(0), w.tree(1)
                obs = (json.dumps(_show_tree(tl), sort_keys=True), json.dumps(_show_tree(tr), sort_keys=True))
                if not trees_equal_mod_conflicted(tl, tr):
                    vs.append(viol("threaded-diverge", digest(repr(obs)), {"L": _show_tree(tl), "R": _show_tree(tr)}))
                for n_, d in invariants(cs.state)[:2]:
                    vs.append(viol("threaded-index:" + n_, name, d))
            except NoQuiescence:
                vs.append(viol("threaded-noquiesce", name, {}))
            finally:
                R.threading = thrx.ShimThreading
                R.time = thrx.ShimTime
        return s, obs, vs
    finally:
        SINK["log"] = None
        w.close()


def run_job(job):
    k = job.get("kind")
    if k == "entry":
        return run_entry_points(job)
    if k == "faultmon":
        return run_faultmon(job)
    if k == "threads":
        name, bound = job["scenario"], job["bound"]
        t0 = time.time()
        stats, outcomes, viols = thrx.explore(lambda p: run_threaded(name, p, job["cfg"]), bound, prefix0=job.get("prefix") or [],
                                              max_execs=job.get("max_execs", 3000), deadline=t0 + job.get("budget_s", 120))
        return {"states": stats["points"], "transitions": stats["points"], "evaluations": stats["executions"],
                "traces": stats["executions"], "nontrivial": len(outcomes), "terminals": stats["executions"],
                "capped": stats["capped"], "violations": viols, "outcomes": list(outcomes)[:20],
                "sample": {"scenario": name, "cfg": job["cfg"], "bound": bound, "choices": job.get("prefix") or []},
                "extra": {"deadlocks": stats["deadlocks"], "horizon_aborts": stats["horizons"],
                          "max_points_per_execution": stats["max_points"]}}
    return run_explore(DRIVER, job)


def thread_jobs(tier):
    out = []
    bound = 1 if tier == "quick" else 2
    cfgs = ["oo"] if tier == "quick" else ["oo", "po"]
    for cfg in cfgs:
        for name in (list(SCEN)[:2] if tier == "quick" else list(SCEN)):
            (s, obs, vs), kids = thrx.first_level(lambda p: run_threaded(name, p, cfg), bound)
            out.append({"kind": "threads", "scenario": name, "cfg": cfg, "bound": 0, "prefix": []})
            for kp in kids:
                out.append({"kind": "threads", "scenario": name, "cfg": cfg, "bound": bound, "prefix": kp,
                            "max_execs": 400 if tier == "quick" else 20000, "budget_s": 60 if tier == "quick" else 900})
    return out


def main(tier):
    rep = report.Report(PROP, tier,
                        rule="(a) lock discipline: every call of a SyncState mutation entry point (updated, mark_changed, storage_commit, "
                             "finished, split, forget, update, update_entry, forget_oid) made while state.lock is "
                             "not owned is recorded with its call site - over a deviation-bounded engine exploration of the C01 history "
                             "list and over every public entry point an application thread may call (smart_sync/unsync/delete/list/"
                             "info, walk, forget, change_count, busy) on CloudSync and SmartCloudSync; (b) the real CloudSync with its "
                             "sync loop (3 iterations), two event loops (2 iterations) and an application thread performing one user "
                             "operation per side, state/provider locks replaced by cooperative shims, every schedule with <=1 (2 "
                             "thorough) preemptions at lock and wait operations; afterwards sequential quiescence, convergence and index "
                             "integrity",
                        technique="stateless model checking of real threads under a controlled scheduler (preemption bounded) + "
                                  "lock-ownership monitor on explored executions",
                        assumptions=["scheduling points at lock acquire/release and shim waits: sufficient given (a) holds",
                                     "single attribute/dict operations are atomic under the GIL"])
    rep.add_results(report.pmap(__name__, monitor_jobs(tier), progress=500), part="lock-monitor-engine")
    ep = [{"kind": "entry", "cfg": cfg, "smart": sm} for cfg in ("oo", "po") for sm in (False, True)]
    rep.add_results(report.pmap(__name__, ep), part="lock-monitor-entry-points")
    fm = []
    for cfg in ("oo", "po"):
        for sc in ([[["create", "c"]], []], [[], [["create", "c"]]], [[["write", "a"]], []], [[], [["rename", "a", "c"]]],
                   [[["mkdir", "e"], ["create", "e/x"]], []], [[["delete", "a"]], [["write", "d/b"]]]):
            fm.append({"kind": "faultmon", "prop": PROP, "cfg": cfg, "order": "asc", "base": "B1", "scripts": A.stamp(sc),
                       "opts": {}})
    rep.add_results(report.pmap(__name__, fm), part="lock-monitor-error-paths")
    tj = thread_jobs(tier)
    rs = report.pmap(__name__, tj, progress=200)
    for r in rs:
        if r and r.get("job", {}).get("kind") == "threads":
            r["job"] = {"kind": "threads", "scenario": r["job"]["scenario"], "cfg": r["job"]["cfg"]}
    rep.add_results(rs, part="threaded-runs")
    return rep.finish()


def replay(path):
    d = json.load(open(path))
    job = d["job"]
    if job.get("kind") == "threads":
        s, obs, vs = run_threaded(job["scenario"], d.get("hist") or [], job["cfg"])
        print("observation:", obs)
        print("violations:", json.dumps(vs, default=repr))
        return 1 if vs else 0
    if job.get("kind") == "entry":
        r = run_entry_points(job)
        print(json.dumps(r["violations"], default=repr, indent=1))
        return 1 if r["violations"] else 0
    from .. import seqx
    vs = seqx.replay(DRIVER, job, d.get("hist") or [])
    return 1 if vs else 0
