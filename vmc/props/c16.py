"""C16 offline providers honour the provider contract: BFS over call sequences vs a reference tree (E2)."""
import io
import os
import shutil
import itertools

from .. import env
from .. import apix
from ..seqx import viol
from cloudsync.providers.mock import MockProvider
from cloudsync import OType, FILE, DIRECTORY
import cloudsync.exceptions as ex

PROP = "C16"
SIZES = {"0": b"", "s": b"0123456789", "m": bytes(range(256)) * 6, "L": bytes(range(251)) * 12 + b"tail"}
SIZES2 = {"0": b"", "s": b"abcdefghij", "m": bytes(range(255, -1, -1)) * 6, "L": bytes(range(251)) * 12 + b"TAIL"}
# same first and last KiB as "L", different middle: only a full read can tell them apart (hash caches keyed on head/tail)
SIZES["L2"] = SIZES2["L2"] = SIZES["L"][:1500] + b"#" + SIZES["L"][1501:]
PATHS = ["/a", "/A", "/b", "/d", "/d/a", "/é.x"]
_counter = itertools.count()

NOTFOUND, EXISTS, OK = "CloudFileNotFoundError", "CloudFileExistsError", "ok"


def configs(tier):
    c = [{"name": "mock_oid_cs", "kind": "mock", "oid_is_path": False, "cs": True},
         {"name": "mock_path_cs", "kind": "mock", "oid_is_path": True, "cs": True},
         {"name": "mock_oid_ci", "kind": "mock", "oid_is_path": False, "cs": False},
         {"name": "mock_path_ci", "kind": "mock", "oid_is_path": True, "cs": False},
         {"name": "filesystem", "kind": "fs", "oid_is_path": True, "cs": True},
         # deeper, narrow alphabet aimed at the hash cache: two >2 KiB contents that differ only in the middle
         {"name": "filesystem_fasthash", "kind": "fs", "oid_is_path": True, "cs": True, "alpha": "fasthash"}]
    return c


def depth(tier, cfg):
    if cfg.get("alpha") == "fasthash":
        return 5 if tier == "quick" else 6
    if cfg["kind"] == "fs":
        return 3 if tier == "quick" else 4
    return 3 if tier == "quick" else 4


def cap(tier):
    return 40000 if tier == "quick" else 400000


def alphabet(cfg):
    if cfg.get("alpha") == "fasthash":
        return [["create", "/a", "L"], ["create", "/b", "L2"], ["create", "/d/a", "L2"], ["mkdir", "/d"], ["mkdir", "/e"],
                ["rename", "/a", "/b"], ["rename", "/b", "/a"], ["rename", "/a", "/d/a"], ["rename", "/d", "/e"],
                ["rename", "/e", "/d"], ["upload", "/a", "L2"], ["upload", "/b", "m"], ["delete", "/a"], ["delete", "/b"],
                ["delete", "/d/a"], ["delete", "/d"]]
    ops = []
    files = ["/a", "/A", "/b", "/d/a", "/é.x"]
    for p in files:
        for s in ("s", "L"):
            ops.append(["create", p, s])
    for p in ("/d", "/a", "/d/a"):
        ops.append(["mkdir", p])
    for p, q in (("/a", "/b"), ("/a", "/A"), ("/a", "/d/a"), ("/a", "/d"), ("/d", "/b"), ("/d", "/a"), ("/d/a", "/a"),
                 ("/b", "/a"), ("/é.x", "/a"), ("/a", "/x/a"), ("/a", "/a")):
        ops.append(["rename", p, q])
    for p in ("/a", "/b", "/d", "/d/a"):
        for s in ("0", "m"):
            ops.append(["upload", p, s])
        ops.append(["delete", p])
    return ops


class Model:
    """path(key) -> dict(path, type, content, oid)"""

    def __init__(self, cs):
        self.cs = cs
        self.t = {}
        self.dead_oids = []

    def k(self, p):
        return p if self.cs else p.lower()

    def get(self, p):
        return self.t.get(self.k(p))

    def parent(self, p):
        return p.rsplit("/", 1)[0] or "/"

    def parent_state(self, p):
        par = self.parent(p)
        if par == "/":
            return "dir"
        e = self.get(par)
        if e is None:
            return "missing"
        return "dir" if e["type"] == "D" else "file"

    def kids(self, p):
        kp = self.k(p)
        return [q for q in self.t if q.startswith(kp + "/")]


class State:
    def __init__(self, cfg):
        self.cfg = cfg
        self.m = Model(cfg["cs"])
        self.dir = None
        if cfg["kind"] == "mock":
            self.p = MockProvider(cfg["oid_is_path"], cfg["cs"])
            self.p.connection_id = "c16"
            self.p.connect({"k": "v"})
        else:
            from cloudsync.providers.filesystem import FileSystemProvider
            self.dir = os.path.join(env.SCRATCH, "c16-%d-%d" % (os.getpid(), next(_counter)))
            os.makedirs(self.dir)
            self.p = FileSystemProvider()
            self.p._connect_observer = lambda path: None    # no OS observer threads: only the synchronous API is explored
            self.p._cache_enabled = True
            self.p.namespace_id = self.dir
            self.p.connect({"k": "v"})
        self.nevents = 0
        self.tick = 0

    def stamp(self, path):
        """filesystem only: give the file just written a logical modification time (distinct, ordered by operation) so that
        the clock granularity of the scratch file system is not an uncontrolled input of the provider's hash cache"""
        if self.dir:
            self.tick += 1
            t = (1_600_000_000 + self.tick) * 10 ** 9
            os.utime(self.p.join(self.dir, path), ns=(t, t))


def make(cfg):
    return State(cfg)


def close(st):
    try:
        st.p.disconnect()
    except Exception:
        pass
    if st.dir:
        shutil.rmtree(st.dir, ignore_errors=True)


def _oid_for(st, path):
    e = st.m.get(path)
    if e is not None:
        return e["oid"]
    if st.cfg["oid_is_path"]:
        if st.cfg["kind"] == "fs":
            return st.p._fpath_to_oid(st.p.join(st.p.namespace_id, path))
        return path
    return st.m.dead_oids[-1] if st.m.dead_oids else "no-such-oid"


def _do(f, *a):
    try:
        return OK, f(*a)
    except ex.CloudException as e:
        return type(e).__name__, None
    except Exception as e:
        return "!" + type(e).__name__, None


def _data(op_size, second=False):
    return (SIZES2 if second else SIZES)[op_size]


def apply(st, op, check):
    p, m = st.p, st.m
    vs = []
    k = op[0]

    def bad(kind, sig, **d):
        if check:
            d["op"] = op
            vs.append(viol(kind, sig, d))
    want = None
    replaced = None
    mutated = None      # (oid, exists) expected in the event stream
    if k == "create":
        path, data = op[1], _data(op[2])
        e = m.get(path)
        ps = m.parent_state(path)
        want = EXISTS if e is not None else NOTFOUND if ps == "missing" else EXISTS if ps == "file" else OK
        got, info = _do(p.create, path, io.BytesIO(data))
        if got == OK and want == OK:
            st.stamp(path)
            m.t[m.k(path)] = {"path": path, "type": "F", "content": data, "oid": info.oid}
            mutated = (info.oid, True)
            if info.otype != FILE or not info.oid:
                bad("create-info", "type-or-oid", info=repr(info)[:120])
    elif k == "mkdir":
        path = op[1]
        e = m.get(path)
        ps = m.parent_state(path)
        want = NOTFOUND if ps == "missing" else EXISTS if ps == "file" else EXISTS if (e and e["type"] == "F") else OK
        got, oid = _do(p.mkdir, path)
        if got == OK and want == OK:
            if e is None:
                m.t[m.k(path)] = {"path": path, "type": "D", "content": None, "oid": oid}
                mutated = (oid, True)
            elif oid != e["oid"]:
                bad("mkdir-existing", "different-oid", got=oid, want=e["oid"])
    elif k == "rename":
        src, dst = op[1], op[2]
        e = m.get(src)
        oid = _oid_for(st, src)
        t = m.get(dst)
        ps = m.parent_state(dst)
        if e is None:
            want = NOTFOUND
        elif ps == "missing":
            want = NOTFOUND
        elif ps == "file":
            want = EXISTS
        elif t is not None and t is not e:
            if t["type"] != e["type"] or t["type"] == "F" or m.kids(dst):
                want = EXISTS
            else:
                want = OK
        else:
            want = OK
        got, new_oid = _do(p.rename, oid, dst)
        replaced = None
        if got == OK and want == OK:
            if t is not None and t is not e:
                m.dead_oids.append(t["oid"])
                replaced = t["oid"]
                del m.t[m.k(dst)]
            moved = {m.k(src): e}
            for q in m.kids(src):
                moved[q] = m.t[q]
            for q in moved:
                del m.t[q]
            for q, v in moved.items():
                nq = m.k(dst) + q[len(m.k(src)):]
                v = dict(v)
                v["path"] = dst + v["path"][len(src):]
                if st.cfg["oid_is_path"]:
                    v["oid"] = None     # re-learned below through info_path
                m.t[nq] = v
            if st.cfg["oid_is_path"]:
                for q, v in m.t.items():
                    if v["oid"] is None:
                        i = p.info_path(v["path"])
                        v["oid"] = i.oid if i else "?"
            else:
                if new_oid != oid:
                    bad("rename-id", "id-changed", before=oid, after=new_oid)
            mutated = (m.get(dst)["oid"], True) if e["path"] != dst else None     # onto itself: nothing happened
    elif k == "upload":
        path, data = op[1], _data(op[2], second=True)
        e = m.get(path)
        oid = _oid_for(st, path)
        want = NOTFOUND if e is None else EXISTS if e["type"] == "D" else OK
        got, info = _do(p.upload, oid, io.BytesIO(data))
        if got == OK and want == OK:
            st.stamp(e["path"])
            e["content"] = data
            mutated = (oid, True)
            if info.oid != oid:
                bad("upload-info", "oid", got=info.oid, want=oid)
    elif k == "delete":
        path = op[1]
        e = m.get(path)
        oid = _oid_for(st, path)
        want = OK if e is None else EXISTS if (e["type"] == "D" and m.kids(path)) else OK
        got, _ = _do(p.delete, oid)
        if got == OK and want == OK and e is not None:
            m.dead_oids.append(e["oid"])
            del m.t[m.k(path)]
            mutated = (oid, False)
    else:
        raise ValueError(k)
    if not check and st.cfg["kind"] == "mock":
        for _ in p.events():
            pass
        return []
    # (filesystem: the read sweep also runs while a prefix is replayed - reads fill the provider's hash cache, so they are
    #  part of the explored call sequence; bad() only records when check is set)
    if got != want:
        bad("result-class", "%s:%s!=%s" % (k, got, want), got=got, want=want)
        if got == OK or want == OK:
            return vs           # model and provider have diverged; later comparisons would only echo this
    # ---- consistency sweep: info / exists / listdir / download / hash agree with the model
    for path in PATHS + ["/x", "/d/b", "/e", "/e/a"]:
        e = m.get(path)
        g, info = _do(p.info_path, path)
        g2, ex_p = _do(p.exists_path, path)
        if g != OK or g2 != OK:
            bad("reader-raises", "info_path:" + g, path=path)
            continue
        if (info is not None) != (e is not None) or bool(ex_p) != (e is not None):
            bad("exists-differs", "info_path", path=path, model=bool(e), info=bool(info), exists=bool(ex_p))
            continue
        if e is None:
            continue
        if info.otype != (FILE if e["type"] == "F" else DIRECTORY):
            bad("info-type", e["type"], path=path)
        if info.oid != e["oid"]:
            bad("info-oid", "path-vs-create", path=path, got=info.oid, want=e["oid"])
        if st.cfg["oid_is_path"]:
            full = path if st.cfg["kind"] == "mock" else p.join(p.namespace_id, path)
            if not p.paths_match(info.oid, full):
                bad("path-style-oid", "not-the-path", path=path, oid=info.oid)
        g, io_ = _do(p.info_oid, e["oid"])
        g2, ex_o = _do(p.exists_oid, e["oid"])
        if g != OK or io_ is None or not ex_o:
            bad("exists-differs", "info_oid", path=path, oid=e["oid"], got=g)
            continue
        if not p.paths_match(io_.path, path):
            bad("info-oid-path", "differs", path=path, got=io_.path)
        if e["type"] == "F":
            buf = io.BytesIO()
            g, _ = _do(p.download, e["oid"], buf)
            if g != OK or buf.getvalue() != e["content"]:
                bad("download", "bytes-differ" if g == OK else g, path=path)
            hd = p.hash_data(io.BytesIO(e["content"]))
            ho = p.hash_oid(e["oid"])
            if info.hash != hd or ho != hd or io_.hash != hd:
                bad("hash-law", "info!=hash_data size=%d" % len(e["content"]), path=path)
        else:
            g, names = _do(lambda o: sorted(d.name for d in p.listdir(o)), e["oid"])
            want_names = sorted(v["path"].rsplit("/", 1)[1] for q, v in m.t.items()
                                if q.startswith(m.k(path) + "/") and "/" not in q[len(m.k(path)) + 1:])
            if g != OK or names != want_names:
                bad("listdir", "differs", path=path, got=names, want=want_names)
    # the root listing (the walk the engine starts from)
    rinfo = _do(p.info_path, "/")[1] if st.cfg["kind"] == "mock" else _do(p.info_path, "/")[1]
    if rinfo is not None:
        g, names = _do(lambda o: sorted(d.name for d in p.listdir(o)), rinfo.oid)
        want_names = sorted(v["path"][1:] for q, v in m.t.items() if "/" not in q[1:])
        if g != OK or names != want_names:
            bad("listdir", "root-differs", got=names, want=want_names)
    for dead in m.dead_oids[-2:]:
        if not st.cfg["oid_is_path"]:
            g, i = _do(p.info_oid, dead)
            if g != OK or i is not None:
                bad("exists-differs", "dead-oid-visible", oid=dead)
    # different contents give different hashes (size classes)
    hs = [p.hash_data(io.BytesIO(b)) for b in list(SIZES.values()) + list(SIZES2.values())]
    distinct = len({bytes(b) for b in list(SIZES.values()) + list(SIZES2.values())})
    if len({repr(h) for h in hs}) != distinct:
        bad("hash-law", "collision", n=len({repr(h) for h in hs}), want=distinct)
    # ---- every successful mutation is reported by the event stream with the right id and existence
    if st.cfg["kind"] == "mock":
        evs = list(p.events())
        if mutated is not None:
            oid, exists = mutated
            if not any(ev.oid == oid and bool(ev.exists) == exists for ev in evs):
                bad("event-missing", k, oid=oid, exists=exists, events=[(ev.oid, ev.exists) for ev in evs][:5])
        elif evs and want != OK:
            bad("event-spurious", k, events=[(ev.oid, ev.exists) for ev in evs][:5])
        if replaced is not None and not st.cfg["oid_is_path"]:
            # an (empty) folder that was replaced by the rename is gone: the stream must say so for its id
            if not any(ev.oid == replaced and not ev.exists for ev in evs):
                bad("event-missing", "rename-replaced-folder", oid=replaced, events=[(ev.oid, ev.exists) for ev in evs][:5])
    return vs


def dump(st):
    m = st.m
    ren = {}

    def R(o):
        if st.cfg["oid_is_path"]:
            if st.dir and isinstance(o, str) and o.startswith(st.dir):
                return o[len(st.dir):]          # the scratch directory name differs per rebuilt state
            return o
        if o not in ren:
            ren[o] = len(ren)
        return ren[o]
    hidden = ()
    if st.dir:
        # hidden provider state that later answers depend on: the hash cache (entry per path: hashes and how its recorded
        # modification time compares with the files now on disk)
        times = {}
        for q, v in m.t.items():
            if v["type"] == "F":
                try:
                    times[("f", q)] = os.stat(st.p.join(st.dir, v["path"])).st_mtime
                except OSError:
                    pass
        cache = {}
        for k, ci in getattr(st.p, "_hash_cache", {}).items():
            times[("c", R(k))] = ci.mtime
            cache[R(k)] = (ci.qhash, ci.fhash)
        rank = {t: i for i, t in enumerate(sorted(set(times.values())))}
        hidden = (tuple(sorted((k, rank[t]) for k, t in times.items())), tuple(sorted(cache.items())))
    return (tuple(sorted((q, v["path"], v["type"], v["content"], R(v["oid"])) for q, v in m.t.items())),
            tuple(R(o) for o in m.dead_oids[-1:]), hidden)


def extra_checks(tier):
    """depth-0 obligations: identity check on connect, single use per sync, filesystem event conversion"""
    vs = []
    n = 0
    # connecting with credentials of a different identity is refused
    for oip, live in ((False, False), (True, False), (False, True), (True, True)):
        p = MockProvider(oip, True)
        p.connect({"k": "v"})
        first = p.connection_id
        if not live:            # (live: the re-login with the wrong account happens on a connected provider)
            p.disconnect()
        orig = p.connect_impl
        p.connect_impl = lambda creds: "someone-else"
        n += 1
        try:
            p.connect({"k": "other"})
            vs.append(viol("identity", "different-identity-accepted", {"first": first}))
        except ex.CloudTokenError:
            pass
        except Exception as e:
            vs.append(viol("identity", "wrong-error:" + type(e).__name__, {}))
        if p.connected:
            vs.append(viol("identity", "still-connected" + ("-live" if live else ""), {}))
        p.connect_impl = orig
    # a provider instance cannot be used by two syncs
    from cloudsync import CloudSync
    a, b, c = MockProvider(False, True), MockProvider(False, True), MockProvider(False, True)
    for i, p in enumerate((a, b, c)):
        p.connection_id = "g%d" % i
        p.connect({"k": "v"})
    cs1 = CloudSync((a, b), roots=("/l", "/r"), sleep=None)
    n += 1
    try:
        cs2 = CloudSync((a, c), roots=("/l", "/r"), sleep=None)
        vs.append(viol("guard", "provider-reused", {}))
        cs2.done()
    except ValueError:
        pass
    finally:
        cs1.done()
        env.release_guard((a, b, c))
    # filesystem: synchronous conversion of each watchdog event class
    try:
        from cloudsync.providers.filesystem import FileSystemProvider
        import watchdog.events as we
        d = os.path.join(env.SCRATCH, "c16-ev-%d" % os.getpid())
        os.makedirs(d, exist_ok=True)
        fp = FileSystemProvider()
        fp._connect_observer = lambda path: None
        fp.namespace_id = d
        fp.connect({"k": "v"})
        try:
            open(os.path.join(d, "f"), "wb").write(b"x")
            os.mkdir(os.path.join(d, "dir"))
            full = lambda name: os.path.join(fp.namespace_id, name)
            cases = [
                (we.FileCreatedEvent(full("f")), FILE, "/f", True, False),
                (we.FileModifiedEvent(full("f")), FILE, "/f", True, False),
                (we.DirCreatedEvent(full("dir")), DIRECTORY, "/dir", True, False),
                (we.FileDeletedEvent(full("gone")), FILE, "/gone", False, False),
                (we.DirDeletedEvent(full("gonedir")), DIRECTORY, "/gonedir", False, False),
                (we.FileMovedEvent(full("old"), full("f")), FILE, "/f", True, True),
                (we.DirMovedEvent(full("olddir"), full("dir")), DIRECTORY, "/dir", True, True),
            ]
            for evt, otype, path, exists, renamed in cases:
                n += 1
                before = fp.latest_cursor
                fp._on_any_event(evt)
                got = list(fp.events())
                name = type(evt).__name__
                if len(got) != 1:
                    vs.append(viol("fs-event", name + ":count", {"n": len(got)}))
                    continue
                e = got[0]
                want_oid = fp._fpath_to_oid(full(path[1:]))
                if e.otype != otype or e.path != path or e.oid != want_oid or bool(e.exists) != exists \
                        or bool(e.prior_oid) != renamed:
                    vs.append(viol("fs-event", name, {"got": [e.otype.value, e.path, e.oid, e.exists, e.prior_oid],
                                                      "want": [otype.value, path, want_oid, exists, renamed]}))
        finally:
            fp.disconnect()
            shutil.rmtree(d, ignore_errors=True)
    except ImportError:
        pass
    for v in vs:
        v["hist"] = []
    return {"job": {"cfg": {"name": "connect-guard-fsevents"}}, "states": n, "transitions": n, "evaluations": n,
            "traces": n, "nontrivial": n, "terminals": 0, "capped": False, "violations": vs, "outcomes": [],
            "sample": {"obligation": "connect with another identity is refused"}}


def main(tier):
    rep = apix.run(PROP, __name__, tier,
                   rule="all call sequences up to depth 3 (4 thorough) over create/mkdir/rename/upload/delete on "
                        "names {a,A,b,d,d/a,e-acute.x} and four size classes (0, 10 B, 1.5 KiB, 3 KiB), four mock flavours "
                        "(id style x case mode) and FileSystemProvider on a /dev/shm directory, plus a depth 5 (6) search on the "
                        "filesystem provider over a narrow alphabet with two 3 KiB contents that differ only in the middle (hash "
                        "cache; reads are part of the sequence, cache contents part of the state); after every call: result or "
                        "error class vs the reference tree, then info/exists/listdir/download/hash consistency sweep, id "
                        "stability, hash law, event report; plus identity, single-use and watchdog event conversion obligations",
                   technique="explicit-state BFS over provider API call sequences against a reference tree model",
                   assumptions=["asynchronous inotify delivery timing and the networked providers are not covered",
                                "filesystem provider: files get logical modification times that are distinct and ordered by "
                                "operation (two writes inside one clock tick of a coarse-grained file system are not explored)"])
    rep.add_results([extra_checks(tier)], part="obligations")
    return rep.finish()


def replay(path):
    return apix.replay(__name__, path)
