"""C17 scheduling laws: nothing syncs before it has aged; oldest eligible goes first (E1 with explicit time)."""
import json

from .. import report, env
from ..world import World, ENGINE, _show_tree
from ..seqx import viol, digest
from .base import Driver, run_explore

PROP = "C17"
TICKS = {"T4": 4.0, "T7": 7.0, "T11": 11.0}
PRIOS = {"flat": {}, "x_first": {"x": -1}, "x_last": {"x": 1}, "x_before_y": {"y": 1}, "y_urgent": {"y": -1}}


def _leaf(p):
    return p.replace("\\", "/").split("/")[-1] if p else None


class D(Driver):
    prop = PROP

    def make_world(self, job):
        w = World(job)
        w.notified = {}         # leaf name -> virtual time of the last intake delivery that mentioned it
        w.pick_errors = []
        w.picks = []
        side = 0
        p = w.provs[side]
        inner = p.events

        def events():
            for ev in inner():
                o = p._mock_fs.get(ev.oid)
                name = _leaf(ev.path) or (_leaf(o.path) if o is not None else None)
                if name:
                    w.notified[name] = w.clock.t
                yield ev
        p.events = events
        st = w.cs.state
        orig_change = st.change
        w.punted = set()
        import cloudsync.sync.state as _S
        if not getattr(_S.SyncEntry.punt, "_vmc", False):
            _orig_punt = _S.SyncEntry.punt

            def punt(self_):
                wcur = getattr(env.CUR, "world", None)
                if wcur is not None and hasattr(wcur, "punted"):
                    wcur.punted.add(id(self_))
                return _orig_punt(self_)
            punt._vmc = True
            _S.SyncEntry.punt = punt

        def change(age):
            ret = orig_change(age)
            now = w.clock.t
            elig = []
            for e in st._changeset_storage:
                # eligible = the LAST notification for the object (either side) is at least the ageing interval old
                latest = max(e[0]._changed or 0, e[1]._changed or 0)
                if (latest and latest <= now - age) or e._priority < 0:
                    elig.append(e)
            # a negative ("immediately") priority must come from the application's prioritize() for a path the entry has now
            for e in st._changeset_storage:
                if e._priority < 0:
                    paths = [e[sd]._path for sd in (0, 1) if e[sd]._path]
                    # (a folder is pulled forward, with a slightly lower value, when an urgent entry below it needs it first)
                    kids_urgent = any(o is not e and o._priority < 0 and any(
                        o[sd]._path and e[sd]._path and o[sd]._path.startswith(e[sd]._path + "/") for sd in (0, 1))
                        for o in st._changeset_storage)
                    if paths and not kids_urgent and \
                            not any(w.prioritize(sd, pth) < 0 for sd in (0, 1) for pth in [e[sd]._path] if pth):
                        w.pick_errors.append(("urgent-without-cause", (tuple(_leaf(x) for x in paths), e._priority)))
            # an entry the application marks urgent (for a path it has now) keeps a negative priority until it is deferred
            for e in st._changeset_storage:
                if e._priority >= 0 and id(e) not in w.punted:
                    ps = [e[sd]._path for sd in (0, 1) if e[sd]._path]
                    if ps and all(w.prioritize(0, pth) < 0 for pth in ps):
                        w.pick_errors.append(("urgent-demoted", (tuple(_leaf(e[sd]._path) for sd in (0, 1)), e._priority)))
            if ret is None:
                if elig:
                    w.pick_errors.append(("eligible-not-picked", [(_leaf(e[0]._path), e._priority) for e in elig]))
            else:
                if ret not in elig:
                    w.pick_errors.append(("picked-not-eligible", (_leaf(ret[0]._path or ret[1]._path), ret._priority,
                                                                  ret[0]._changed, ret[1]._changed, now, age)))
                else:
                    key = lambda e: (e._priority, max(e[0]._changed or 0, e[1]._changed or 0))
                    best = min(key(e) for e in elig)
                    if key(ret)[0] != best[0]:
                        w.pick_errors.append(("priority-order", (key(ret), best)))
                    elif key(ret)[1] > best[1] + 1e-9:
                        w.pick_errors.append(("age-order", (key(ret), best)))
                w.picks.append(_leaf(ret[0]._path or ret[1]._path))
            return ret
        st.change = change

        def action(world, a):
            world.clock.t += TICKS[a]
        w.hooks["action"] = action
        w.hooks["actions"] = lambda world: list(TICKS)
        w.hooks["key"] = lambda world: (tuple(sorted((k, round(v - world.clock.t, 3)) for k, v in world.notified.items())),)
        return w

    def pre_step(self, w, a):
        return (len(w.engine_writes), len(w.pick_errors))

    def on_step(self, w, a, pre):
        vs = []
        n, npk = pre
        A_ = w.cs.aging
        prio = w.opts.get("prioritize") or {}
        for (act, side, name, args, t) in w.engine_writes[n:]:
            if side != 1:
                continue
            target = None
            if name in ("create", "mkdir"):
                target = _leaf(args[0])
            elif name == "rename":
                target = _leaf(args[1])
            else:
                o = w.provs[1]._mock_fs.get(args[0])
                target = _leaf(o.path) if o is not None else None
            if target is None or target not in w.notified:
                continue
            # (an object that is urgent under the name it had when it was notified stays urgent for that change: a rename
            #  event of an id-addressed account carries no path, the entry is picked under its old name)
            names = {target}
            for sc in w.scripts:
                for op in sc:
                    if op[0] == "rename" and _leaf(op[2]) in names:
                        names.add(_leaf(op[1]))
            if min(prio.get(n_, 0) for n_ in names) < 0:
                continue
            # a folder that an urgent object below it needs first is created ahead of its own ageing
            if any(op[0] in ("create", "write", "mkdir") and ("/" + target + "/") in ("/" + op[1]) and prio.get(_leaf(op[1]), 0) < 0
                   for sc in w.scripts for op in sc):
                continue
            if t + 1e-9 < w.notified[target] + A_:
                vs.append(viol("propagated-before-aged", "%s:%s" % (name, target),
                               {"write_time": t, "notified": w.notified[target], "aging": A_, "call": name}))
        for kind, d in w.pick_errors[npk:]:
            vs.append(viol("pick-" + kind, digest(repr(d)) if kind != "eligible-not-picked" else "x", {"detail": repr(d)}))
        return vs

    def on_terminal(self, w):
        return self.observe(w), []


DRIVER = D()

SCRIPTS = {
    "w2": [["write", "x", "X1"], ["write", "y", "Y1"]],
    "w3": [["write", "x", "X1"], ["write", "y", "Y1"], ["write", "x", "X2"]],
    "cz": [["create", "z", "Z1"], ["write", "x", "X1"]],
    "xx": [["write", "x", "X1"], ["write", "x", "X2"]],     # a second notification must restart the ageing clock
    "rn": [["rename", "x", "z"], ["write", "z", "Z1"]],     # an urgent name renamed to an ordinary one is ordinary afterwards
    "dir": [["mkdir", "q"], ["create", "q/x", "X1"]],       # an urgent file inside a folder that is itself still pending
}
BASE = [["create", "x", "x0"], ["create", "y", "y0"]]


def jobs(tier):
    out = []
    depth = 7 if tier == "quick" else 9
    for cfg in (["po"] if tier == "quick" else ["po", "oo", "pp"]):
        for aging in (0, 10):
            for pname, prio in PRIOS.items():
                for sname, sc in SCRIPTS.items():
                    if tier == "quick" and sname == "w3" and pname not in ("flat", "x_last"):
                        continue
                    out.append({"prop": PROP, "cfg": cfg, "order": "asc", "base": BASE, "scripts": [sc, []],
                                "opts": {"explicit_time": True, "aging": aging, "prioritize": prio},
                                "mode": {"k": None, "cap": 6000 if tier == "quick" else 40000, "depth": depth, "depth_bound": True,
                                         "audit": 0}})
    for cfg in (["po", "oo"]):
        for aging in (0, 10):
            out.append({"prop": PROP, "cfg": cfg, "order": "asc", "base": BASE, "scripts": [[], []], "orderlaw": True,
                        "opts": {"explicit_time": True, "aging": aging, "prioritize": {}}})
    for cfg in (["po", "oo"]):
        out.append({"prop": PROP, "cfg": cfg, "order": "asc", "base": BASE, "scripts": [[], []], "derive": True,
                    "opts": {"explicit_time": True, "prioritize": {}}})
    for cfg in (["po", "oo"]):
        for aging in (0, 10):
            for pname in ("flat", "x_first", "x_last"):
                out.append({"prop": PROP, "cfg": cfg, "order": "asc", "base": BASE, "scripts": [[], []],
                            "starve": True, "opts": {"explicit_time": True, "aging": aging, "prioritize": PRIOS[pname]}})
    return out


def run_starve(job):
    """a persistently failing entry (locked peer path) must not starve the others"""
    j = dict(job, scripts=[[["write", "x", "X1"], ["write", "y", "Y1"]], []])
    w = DRIVER.make_world(j)
    vs = []
    try:
        w.provs[1]._locked_for_test.add("/remote/x")
        w.user(0)
        w.user(0)
        synced_at = None
        rounds = 0
        for rounds in range(1, 80):
            w.step("IL")
            w.step("S")
            w.step("IR")
            w.clock.t += 1.0
            if w.tree(1).get("y") == b"Y1":
                synced_at = rounds
                break
        aging = w.cs.aging
        bound = int(aging) + 25
        if synced_at is None or synced_at > bound:
            vs.append(viol("starved", "y-not-synced", {"rounds": rounds, "bound": bound, "picks": w.picks[-12:]}))
            vs[-1]["hist"] = ["UL", "UL"] + ["IL", "S", "IR", "T1"] * 3
    finally:
        w.close()
    return {"states": rounds * 3, "transitions": rounds * 3, "evaluations": 1, "traces": 1, "nontrivial": 1, "terminals": 1,
            "capped": False, "violations": vs, "outcomes": [], "sample": {"starve": True, "synced_at_round": synced_at}}


ORDER_EVENTS = {"Lx": (0, ["write", "x", "x0"]), "Ly": (0, ["write", "y", "Y1"]), "Rx": (1, ["write", "x", "RX"]),
                "Ry": (1, ["write", "y", "RY"])}


def run_order(job):
    """'within a priority, older changes first' for entries with BOTH sides pending: notifications (a local re-save of x with
    unchanged bytes, a local edit of y, remote edits of x / y) arrive in every order, a tick apart; then the sync loop runs"""
    import itertools
    vs = []
    n = 0
    for names in (("Lx", "Ly", "Rx"), ("Lx", "Ly", "Rx", "Ry")):
        for perm in itertools.permutations(names):
            scripts = [[], []]
            for e in perm:
                side, op = ORDER_EVENTS[e]
                scripts[side].append(list(op))
            w = DRIVER.make_world(dict(job, scripts=scripts))
            n += 1
            try:
                for e in perm:
                    side, _ = ORDER_EVENTS[e]
                    w.user(side)
                    w.step("IL" if side == 0 else "IR")
                    w.clock.t += 4.0
                w.clock.t += 11.0
                npk = 0
                for i in range(12):
                    w.step("S")
                errs = [x for x in w.pick_errors if x[0] in ("age-order", "priority-order", "picked-not-eligible")]
                if errs:
                    v = viol("pick-" + errs[0][0], "order:" + "".join(perm), {"detail": repr(errs[0][1]), "events": list(perm),
                                                                            "picks": w.picks})
                    v["hist"] = list(perm) + ["T11", "S*"]
                    if not any(o["kind"] == v["kind"] and o["sig"] == v["sig"] for o in vs):
                        vs.append(v)
            finally:
                w.close()
    return {"states": n * 12, "transitions": n * 12, "evaluations": n, "traces": n, "nontrivial": n, "terminals": n,
            "capped": False, "violations": vs, "outcomes": [], "sample": {"order-scenarios": n}}


DERIVE_SLEEPS = (0.5, 5.0, 10.0, 15.0)


def run_derive(job):
    """the ageing interval an engine built with defaults uses is derived from the slower of the two accounts' poll intervals
    (documented: max(default_sleep)/5): for every pair of poll intervals, and a change on either side, nothing is propagated
    before the change has aged that long"""
    import itertools
    vs = []
    n = 0
    steps = 0
    for ls, rs in itertools.product(DERIVE_SLEEPS, repeat=2):
        expect = max(ls, rs) / 5
        for side in (0, 1):
            scripts = [[], []]
            scripts[side].append(["write", "x", "X1"])
            opts = dict(job["opts"], default_sleep=[ls, rs])
            opts.pop("aging", None)
            w = DRIVER.make_world(dict(job, scripts=scripts, opts=opts))
            n += 1
            try:
                bad = None
                if abs(w.cs.aging - expect) > 1e-9:
                    bad = ("derived-ageing", {"aging": w.cs.aging, "expected": expect, "default_sleep": [ls, rs]})
                w.user(side)
                w.step("IL" if side == 0 else "IR")
                t0 = w.clock.t
                synced = None
                for i in range(60):
                    w.step("S")
                    steps += 1
                    if w.tree(1 - side).get("x") == b"X1":
                        synced = w.clock.t - t0
                        break
                    w.clock.t += expect / 8
                if bad is None and synced is not None and synced < expect - 1e-9:
                    bad = ("synced-before-aged", {"after_s": synced, "expected_at_least": expect, "default_sleep": [ls, rs]})
                if bad is None and synced is None:
                    bad = ("never-synced", {"default_sleep": [ls, rs], "waited_s": w.clock.t - t0})
                if bad:
                    v = viol("ageing-" + bad[0], "side%d:%s" % (side, "L<R" if ls < rs else "L>R" if ls > rs else "L=R"), bad[1])
                    v["hist"] = ["U" + "LR"[side], "I" + "LR"[side], "S/T*"]
                    if not any(o["kind"] == v["kind"] and o["sig"] == v["sig"] for o in vs):
                        vs.append(v)
            finally:
                w.close()
    return {"states": steps, "transitions": steps, "evaluations": n, "traces": n, "nontrivial": n, "terminals": n,
            "capped": False, "violations": vs, "outcomes": [], "sample": {"derive-scenarios": n}}


def run_job(job):
    if job.get("derive"):
        return run_derive(job)
    if job.get("starve"):
        return run_starve(job)
    if job.get("orderlaw"):
        return run_order(job)
    return run_explore(DRIVER, job)


def main(tier):
    rep = report.Report(PROP, tier,
                        rule="one-sided histories (write x, write y[, write x again] / create z, write x) under a virtual clock that "
                             "only moves through explicit tick actions T(4),T(7),T(11) and the engine's own sleeps; every order of "
                             "user op, intake, sync step and ticks up to depth 7 (9 thorough); ageing in {0,10}; five prioritise "
                             "functions; at every sync step the entry handed out must be eligible (changed <= now-ageing or "
                             "priority<0) and minimal by (priority, age); every engine write to the peer must come >= ageing after "
                             "the last intake delivery that mentioned the object unless its priority is negative; plus a starvation "
                             "scenario with a permanently locked peer path",
                        technique="explicit-state model checking of the implementation with explicit time actions (depth-bounded, "
                                  "exhaustive over action orders)")
    rep.add_results(report.pmap(__name__, jobs(tier), progress=50))
    return rep.finish()
