"""C18 service loops: bounded geometric backoff, final stop, ordered notifications (E3 + E4)."""
import itertools
import json
import time

from .. import env  # noqa
from .. import report, thrx
from ..seqx import viol, digest
import cloudsync.runnable as R
import cloudsync.notification as N
import cloudsync.long_poll as LP

PROP = "C18"


def install_shims():
    R.threading = thrx.ShimThreading
    R.time = thrx.ShimTime
    N.queue = thrx.ShimQueueModule
    LP.threading = thrx.ShimThreading
    LP.time = thrx.ShimTime


# ------------------------------------------------------------------------------------------------ backoff arithmetic
OUTCOMES = ("work", "noop", "backoff", "exc", "baseexc")
PARAMS = [(0.01, 1.0, 2.0), (1.0, 15.0, 2.0), (0.5, 0.5, 3.0), (0.1, 10.0, 1.0), (0.1, 1.0, 3.0)]
IDLE = 0.25


class _Bad(BaseException):
    pass


def run_backoff(job):
    install_shims()
    mn, mx, mult = job["params"]
    n = 0
    vs = {}
    sample = None
    for L in range(1, job["len"] + 1):
        for seq in itertools.product(OUTCOMES, repeat=L):
            if seq[0] != job["first"]:
                continue
            n += 1
            times = []

            class Svc(R.Runnable):
                min_backoff, max_backoff, mult_backoff = mn, mx, mult

                def __init__(s):
                    s.i = 0

                def do(s):
                    times.append(thrx.CUR.now)
                    o = seq[s.i] if s.i < len(seq) else "work"
                    s.i += 1
                    if o == "noop":
                        s.nothing_happened()
                    elif o == "backoff":
                        s.backoff()
                    elif o == "exc":
                        raise KeyError("boom")
                    elif o == "baseexc":
                        raise _Bad()
            svc = Svc()
            s = thrx.Sched()
            s.spawn("loop", lambda: svc.run(until=lambda: svc.i > len(seq), sleep=IDLE))
            s.run()
            if s.threads[0].exc is not None or len(times) != len(seq) + 1:
                vs.setdefault(("loop-died", seq[min(len(times), len(seq)) - 1]),
                              {"seq": list(seq), "calls": len(times), "exc": repr(s.threads[0].exc)})
                continue
            k = 0
            for i, o in enumerate(seq):
                if o in ("backoff", "exc", "baseexc"):
                    k += 1
                elif o == "work":
                    k = 0
                want = IDLE if k == 0 else min(mx, mn * (mult ** (k - 1)))
                got = times[i + 1] - times[i]
                if abs(got - want) > 1e-9:
                    vs.setdefault(("backoff-wait", "%s:k=%d" % (o, k)),
                                  {"seq": list(seq), "after_call": i, "waited": got, "expected": want, "params": [mn, mx, mult]})
                    break
            sample = {"params": [mn, mx, mult], "seq": list(seq), "waits": [round(times[i + 1] - times[i], 4) for i in range(len(seq))]}
    viols = []
    for key, d in vs.items():
        v = viol(key[0], key[1], d)
        v["hist"] = d["seq"]
        viols.append(v)
    return {"states": n, "transitions": n, "evaluations": n, "traces": n, "nontrivial": n, "terminals": 0, "capped": False,
            "violations": viols, "outcomes": [], "sample": sample}


LP_OUTCOMES = ("events", "quiet", "exc", "exc-late")


def run_lp_backoff(job):
    """the long-poll service obeys the same backoff law: every outcome sequence of the provider's long_poll callable
    (returns True / returns False / raises at once / raises after the long-poll timeout has gone by)"""
    install_shims()
    n = 0
    vs = {}
    sample = None
    for L in range(1, job["len"] + 1):
        for seq in itertools.product(LP_OUTCOMES, repeat=L):
            if seq[0] != job["first"]:
                continue
            n += 1
            starts, ends = [], []
            state = {"i": 0}

            def long_poll(timeout):
                starts.append(thrx.CUR.now)
                o = seq[state["i"]] if state["i"] < len(seq) else "events"
                state["i"] += 1
                if o == "exc-late":
                    LP.time.sleep(timeout + 5)
                ends.append(thrx.CUR.now)
                if o in ("exc", "exc-late"):
                    raise KeyError("provider long poll failed")
                return o == "events"
            box = {}

            def loop():
                box["lp"] = lp_ = LP.LongPollManager(lambda: iter(()), long_poll, uses_cursor=False)
                lp_.run(until=lambda: state["i"] > len(seq), sleep=IDLE)
            s = thrx.Sched()
            s.spawn("loop", loop)
            s.run()
            lp = box.get("lp")
            if s.threads[0].exc is not None or len(starts) != len(seq) + 1:
                vs.setdefault(("loop-died", seq[min(len(starts), len(seq)) - 1]),
                              {"seq": list(seq), "calls": len(starts), "exc": repr(s.threads[0].exc)})
                continue
            k = 0
            for i, o in enumerate(seq):
                k = k + 1 if o in ("exc", "exc-late") else 0
                want = IDLE if k == 0 else min(lp.max_backoff, lp.min_backoff * (lp.mult_backoff ** (k - 1)))
                got = starts[i + 1] - ends[i]
                if abs(got - want) > 1e-9:
                    vs.setdefault(("longpoll-backoff-wait", "%s:k=%d" % (o, k)),
                                  {"seq": list(seq), "after_call": i, "waited": got, "expected": want})
                    break
            sample = {"seq": list(seq), "waits": [round(starts[i + 1] - ends[i], 4) for i in range(len(seq))]}
    viols = []
    for key, d in vs.items():
        v = viol(key[0], key[1], d)
        v["hist"] = d["seq"]
        viols.append(v)
    return {"states": n, "transitions": n, "evaluations": n, "traces": n, "nontrivial": n, "terminals": 0, "capped": False,
            "violations": viols, "outcomes": [], "sample": sample}


# ------------------------------------------------------------------------------------------------ stop/start/wake races
def scenario(name, sched, log):
    """returns (list of (thread name, fn)), finish() -> violations"""
    class Svc(R.Runnable):
        def __init__(s, tag, stop_inside=False):
            s.tag, s.n, s.cleaned, s.stop_inside = tag, 0, 0, stop_inside

        def do(s):
            s.n += 1
            log.append(("do", s.tag, s.n))
            if s.stop_inside and s.n == 1:
                s.stop(forever=True)
                log.append(("stopped", s.tag))

        def done(s):
            s.cleaned += 1
            log.append(("done", s.tag))
    a = Svc("a", stop_inside=(name == "stop_inside_do"))
    b = Svc("b")
    final = {"a": True, "b": None}

    def app():
        if name == "start_stop":
            a.start(sleep=0.01)
            a.stop(forever=True)
            log.append(("stopped", "a"))
            try:
                a.start(sleep=0.01)
                log.append(("restart-accepted", "a"))
            except RuntimeError:
                log.append(("restart-refused", "a"))
        elif name == "stop_start_stop":
            a.start(sleep=0.01)
            a.stop(forever=False)
            log.append(("stopped-nonfinal", "a"))
            a.start(sleep=0.01)
            a.stop(forever=True)
            log.append(("stopped", "a"))
        elif name == "wake":
            a.start(sleep=5.0)
            a.wake()
            a.stop(forever=True)
            log.append(("stopped", "a"))
        elif name == "nowait_stop":
            a.start(sleep=0.01)
            a.stop(forever=True, wait=False)
            a.wait()
            log.append(("stopped", "a"))
        elif name == "stop_all":
            final["b"] = True
            a.start(sleep=0.01)
            b.start(sleep=0.02)
            R.Runnable.stop_all([a, b], forever=True, wait=True)
            log.append(("stopped", "a"))
            log.append(("stopped", "b"))
        elif name == "stop_inside_do":
            a.start(sleep=0.01)
            a.wait()
            log.append(("joined", "a"))
        elif name == "stop_before_first_do":
            a.start(sleep=0.01)
            a.stop(forever=True, wait=True)
            log.append(("stopped", "a"))
        else:
            raise ValueError(name)

    def finish():
        vs = []
        for tag, svc in (("a", a), ("b", b)):
            if final[tag] is None:
                continue
            idx = [i for i, e in enumerate(log) if e == ("stopped", tag)]
            if idx:
                later = [e for e in log[idx[0] + 1:] if e[0] == "do" and e[1] == tag]
                if later:
                    vs.append(viol("do-after-stop", name, {"log": [list(map(str, e)) for e in log[-8:]]}))
            nf = [i for i, e in enumerate(log) if e == ("stopped-nonfinal", tag)]
            if nf:
                nxt_start = None
                between = [e for e in log[nf[0] + 1:] if e[0] == "do" and e[1] == tag]
                # after a non-final stop returned, no call until start() is invoked again: the first later call must
                # come after the application thread resumed, which the log cannot tell apart; only cleanup is checked
            if svc.cleaned != 1:
                vs.append(viol("cleanup-count", "%s:%d" % (name, svc.cleaned), {"cleaned": svc.cleaned,
                                                                               "log": [list(map(str, e)) for e in log[-8:]]}))
        if ("restart-accepted", "a") in log:
            vs.append(viol("restart-after-final-stop", name, {}))
        return vs
    return [("app", app)], finish


SCENARIOS = ["start_stop", "stop_start_stop", "wake", "nowait_stop", "stop_all", "stop_inside_do"]


def notification_scenario(name, sched, log):
    delivered = []
    got_all = thrx.ShimEvent()
    total = 4

    def handler(n):
        delivered.append(n.path)
        log.append(("deliver", n.path))
        if len(delivered) >= total:
            got_all._flag = True
        if n.path == "p1-1":
            raise RuntimeError("handler blew up")
    nm = N.NotificationManager(handler)

    def producer(tag):
        def run():
            for i in range(2):
                nm.notify(N.Notification(N.SourceEnum.SYNC, N.NotificationType.TEMPORARY_ERROR, "%s-%d" % (tag, i)))
        return run
    threads = []

    def app():
        nm.start()
        p1 = thrx.ShimThread(target=producer("p1"))
        p2 = thrx.ShimThread(target=producer("p2"))
        p1.start()
        p2.start()
        p1.join()
        p2.join()
        if name == "notify_wait_all":
            got_all.wait()      # no timeout: a lost notification shows as a deadlock verdict
        nm.stop(forever=True)
        log.append(("stopped", "nm"))

    def finish():
        vs = []
        if len(delivered) != len(set(delivered)):
            vs.append(viol("notification-duplicated", name, {"delivered": delivered}))
        for tag in ("p1", "p2"):
            mine = [d for d in delivered if d.startswith(tag)]
            if mine != sorted(mine):
                vs.append(viol("notification-order", name, {"delivered": delivered}))
        if name == "notify_wait_all" and len(delivered) != total:
            vs.append(viol("notification-lost", name, {"delivered": delivered}))
        if "p1-1" in delivered:
            # the raising handler must not stop later deliveries (when the service keeps running)
            if name == "notify_wait_all" and delivered.index("p1-1") == len(delivered) - 1 and len(delivered) < total:
                vs.append(viol("handler-failure-stops-delivery", name, {"delivered": delivered}))
        idx = [i for i, e in enumerate(log) if e == ("stopped", "nm")]
        if idx and any(e[0] == "deliver" for e in log[idx[0] + 1:]):
            vs.append(viol("deliver-after-stop", name, {"log": [list(map(str, e)) for e in log[-6:]]}))
        return vs
    return [("app", app)], finish


def longpoll_scenario(name, sched, log):
    calls = []

    def short_poll():
        calls.append("short")
        return iter(())

    def long_poll(timeout):
        calls.append("long")
        log.append(("do", "lp", len(calls)))
        thrx.ShimTime.sleep(0.5)
        return True
    lp = LP.LongPollManager(short_poll, long_poll, uses_cursor=(name == "longpoll_cursor"))

    def app():
        lp.start(sleep=0.01)
        lp.stop(forever=True)
        lp.wait()
        log.append(("stopped", "lp"))
        n_after = len(calls)
        log.append(("calls", n_after))

    def finish():
        vs = []
        idx = [i for i, e in enumerate(log) if e == ("stopped", "lp")]
        if idx and any(e[0] == "do" for e in log[idx[0] + 1:]):
            vs.append(viol("do-after-stop", name, {"log": [list(map(str, e)) for e in log[-6:]]}))
        return vs
    return [("app", app)], finish


ALL = {n: scenario for n in SCENARIOS}
ALL.update({"notify_stop": notification_scenario, "notify_wait_all": notification_scenario,
            "longpoll_cursor": longpoll_scenario, "longpoll_nocursor": longpoll_scenario})
TRACE = {"notify_stop": ("cloudsync/notification.py", "cloudsync/runnable.py"),
         "notify_wait_all": ("cloudsync/notification.py",),
         "longpoll_cursor": ("cloudsync/runnable.py",), "longpoll_nocursor": ("cloudsync/runnable.py",)}


def run_one(name, prefix):
    install_shims()
    log = []
    s = thrx.Sched(prefix, trace_files=TRACE.get(name, ("cloudsync/runnable.py",)), step_limit=4000)
    thrx.CUR = s
    threads, finish = ALL[name](name, s, log)
    for tname, fn in threads:
        s.spawn(tname, fn)
    s.run()
    vs = []
    if s.deadlock:
        vs.append(viol("deadlock", name, {"log": [list(map(str, e)) for e in log[-6:]]}))
    if s.horizon:
        # every scenario is finite under a bounded number of preemptions: running into the step horizon means a stop()
        # or wait() never returned while the work function kept being called
        vs.append(viol("no-termination", name, {"log": [list(map(str, e)) for e in log[-6:]],
                                                "work_calls": sum(1 for e in log if e[0] == "do")}))
    for t in s.threads:
        if t.exc is not None:
            vs.append(viol("thread-exception", "%s:%s" % (name, type(t.exc).__name__), {"thread": str(t.name), "exc": repr(t.exc)}))
    if not s.deadlock and not s.horizon:
        vs.extend(finish())
    obs = tuple(e for e in log if e[0] != "do") + (("ndo", sum(1 for e in log if e[0] == "do")),)
    return s, obs, vs


def run_races(job):
    name, bound = job["scenario"], job["bound"]
    prefix = job.get("prefix") or []
    t0 = time.time()
    stats, outcomes, viols = thrx.explore(lambda p: run_one(name, p), bound, prefix0=prefix,
                                          max_execs=job.get("max_execs", 40000), deadline=t0 + job.get("budget_s", 600))
    return {"states": stats["points"], "transitions": stats["points"], "evaluations": stats["executions"],
            "traces": stats["executions"], "nontrivial": len(outcomes), "terminals": stats["executions"],
            "capped": stats["capped"], "violations": viols, "outcomes": list(outcomes)[:30],
            "sample": {"scenario": name, "bound": bound, "choices": prefix},
            "extra": {"deadlocks": stats["deadlocks"], "horizon_aborts": stats["horizons"],
                      "replay_divergences": stats["divergences"], "max_points_per_execution": stats["max_points"]}}


def run_job(job):
    if job["kind"] == "backoff":
        return run_backoff(job)
    if job["kind"] == "lp-backoff":
        return run_lp_backoff(job)
    r = run_races(job)
    # the known finding identity must not depend on how the work was split over workers
    r["job"] = {"kind": "race", "scenario": job["scenario"]}
    return r


def jobs(tier):
    out = []
    L = 5 if tier == "quick" else 6
    for p in PARAMS:
        for f in OUTCOMES:
            out.append({"kind": "backoff", "params": list(p), "len": L, "first": f})
    for f in LP_OUTCOMES:
        out.append({"kind": "lp-backoff", "len": L, "first": f})
    bound = 2 if tier == "quick" else 3
    install_shims()
    for name in ALL:
        b = bound if not name.startswith("notify") else max(1, bound - 1)
        (s, obs, vs), kids = thrx.first_level(lambda p: run_one(name, p), b)
        out.append({"kind": "race", "scenario": name, "bound": 0, "prefix": [], "weight": 1})
        for kpre in kids:
            out.append({"kind": "race", "scenario": name, "bound": b, "prefix": kpre, "weight": 5,
                        "max_execs": 6000 if tier == "quick" else 40000, "budget_s": 40 if tier == "quick" else 200})
    return out


def main(tier):
    rep = report.Report(PROP, tier,
                        rule="(a) backoff arithmetic: every outcome sequence of length <=5 (6 thorough) over {did work, nothing "
                             "happened, backoff(), exception, BaseException} x 5 (min,max,mult) triples on the real Runnable.run under a "
                             "virtual clock; (b) stop/start/wake races: 6 scenarios on real threads under a controlled scheduler with a "
                             "scheduling point at every source line of runnable.py and every Event/Thread operation, all schedules with "
                             "<=2 (3 thorough) preemptions; (c) NotificationManager (two producers, a raising handler, stop) and "
                             "LongPollManager stop scenarios likewise. evaluations = executions, states/transitions = scheduling "
                             "points visited, distinct_nontrivial = distinct observation sequences",
                        technique="stateless model checking of real threads under a controlled scheduler with preemption bounding; "
                                  "bounded exhaustive outcome-sequence enumeration for the backoff law",
                        assumptions=["scheduling granularity: source lines of runnable.py/notification.py and shim operations; "
                                     "the GIL makes single attribute reads/writes atomic"])
    rs = report.pmap(__name__, jobs(tier), progress=200)
    for r in rs:
        if r and "job" in r and r["job"].get("kind") == "race" and "prefix" in r["job"]:
            r["job"] = {"kind": "race", "scenario": r["job"]["scenario"]}
    rep.add_results(rs)
    return rep.finish()


def replay(path):
    d = json.load(open(path))
    job = d["job"]
    if job.get("kind") in ("backoff", "lp-backoff"):
        r = run_backoff(job) if job["kind"] == "backoff" else run_lp_backoff(job)
        print(json.dumps(r["violations"], indent=1, default=repr))
        return 1 if r["violations"] else 0
    s, obs, vs = run_one(job["scenario"], d.get("hist") or [])
    print("choices:", d.get("hist"))
    print("observation:", obs)
    print("violations:", json.dumps(vs, default=repr))
    s2, obs2, vs2 = run_one(job["scenario"], d.get("hist") or [])
    print("second replay identical:", obs == obs2)
    return 1 if vs else 0
