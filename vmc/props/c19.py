"""C19 hierarchical path/id cache coherence: BFS over call sequences against a fact model."""
from .. import env  # noqa
from .. import apix
from ..seqx import viol
from cloudsync.hierarchical_cache import HierarchicalCache
from cloudsync.providers.mock import MockProvider
from cloudsync import DIRECTORY, FILE

PROP = "C19"
PATHS = ["/a", "/b", "/a/a", "/a/b", "/b/a", "/a/a/a"]
OIDS = [1, 2, 3]
TYPES = {"F": FILE, "D": DIRECTORY}
ABSENT = "absent"


def configs(tier):
    c = [{"name": "cs", "cs": True}, {"name": "ci", "cs": False},
         # the same search started from a populated cache (folder with an id holding an id-less child, a root-level entry
         # with the child's name): states the empty-cache search only reaches one level deeper
         {"name": "cs_pre", "cs": True, "pre": [["mkdir", "/a", 1], ["create", "/a/b", None], ["create", "/b", 2]]},
         {"name": "ci_pre", "cs": False, "pre": [["mkdir", "/a", 1], ["create", "/A/b", None], ["create", "/b", 2]]}]
    return c


def depth(tier, cfg):
    return 3 if tier == "quick" else 4


def cap(tier):
    return 60000 if tier == "quick" else 400000


def alphabet(cfg):
    paths = list(PATHS)
    if not cfg["cs"]:
        paths = ["/a", "/A", "/b", "/a/a", "/A/b"]
    ops = []
    for p in paths:
        for o in OIDS + [None]:
            ops.append(["create", p, o])
            ops.append(["mkdir", p, o])
        for q in paths:
            if q != p and not q.lower().startswith(p.lower() + "/"):     # a node is never moved below itself
                ops.append(["rename", p, q])
        ops.append(["delete_path", p])
        for o in OIDS:
            for t in "FD":
                ops.append(["set_oid", p, o, t])
        for t in "FD":
            for o in OIDS + [None]:
                ops.append(["update", p, t, o])
    for o in OIDS:
        ops.append(["delete_oid", o])
    return ops


class Facts:
    """what has been asserted and not since invalidated: path -> (type, oid|None)"""

    def __init__(self, prov):
        self.prov = prov
        self.f = {}

    def n(self, p):
        return self.prov.normalize_path(p)

    def parents(self, p):
        out = []
        cur = p
        while True:
            par = cur.rsplit("/", 1)[0]
            if par == "" or par == cur:
                break
            out.append(par)
            cur = par
        return out

    def drop_tree(self, p, keep_self=False):
        for q in list(self.f):
            if q.startswith(p + "/") or (q == p and not keep_self):
                del self.f[q]

    def drop_oid(self, oid, replaced=True):
        """the object holding oid is evicted (with its subtree)"""
        if oid is None:
            return
        for q, (t, o) in list(self.f.items()):
            if o == oid:
                self.drop_tree(q)

    def ensure_parents(self, p):
        for par in reversed(self.parents(p)):
            cur = self.f.get(par)
            if cur is None or cur[0] != DIRECTORY:
                self.drop_tree(par)
                self.f[par] = (DIRECTORY, None)

    def assert_node(self, p, otype, oid):
        """a new object is asserted at p: whatever was there (and below) is replaced"""
        p = self.n(p)
        self.ensure_parents(p)
        self.drop_tree(p)
        self.drop_oid(oid)
        self.ensure_parents(p)      # an ancestor that held this id is gone: the folder is there, its id is not known
        self.f[p] = (otype, oid)

    def delete_path(self, p):
        self.drop_tree(self.n(p))

    def rename(self, p, q):
        p, q = self.n(p), self.n(q)
        moved = {k: v for k, v in self.f.items() if k == p or k.startswith(p + "/")}
        for k in moved:
            del self.f[k]
        self.drop_tree(q)
        if p in moved:
            self.ensure_parents(q)
            if q.startswith(p + "/"):
                return      # renamed under itself: everything is gone
            for k, v in moved.items():
                self.f[q + k[len(p):]] = v

    def set_oid(self, p, oid, otype):
        p = self.n(p)
        cur = self.f.get(p)
        if cur is None:
            self.assert_node(p, otype, oid)
            return
        if cur[1] == oid:
            return
        if cur[1] is None:
            self.drop_oid(oid)
            if p in self.f:
                self.f[p] = (cur[0], oid)
            else:
                self.assert_node(p, cur[0], oid)
            return
        self.assert_node(p, cur[0], oid)        # id changed: a different object now lives here

    def update(self, p, otype, oid):
        p = self.n(p)
        cur = self.f.get(p)
        if cur is None or cur[0] != otype:
            self.assert_node(p, otype, oid)
            return
        if oid:
            self.set_oid(p, oid, otype)


class State:
    def __init__(self, cfg):
        self.prov = MockProvider(False, cfg["cs"])
        self.cache = HierarchicalCache(self.prov, 0)
        self.facts = Facts(self.prov)
        self.broken = False


def make(cfg):
    st = State(cfg)
    for op in cfg.get("pre") or []:
        apply(st, op, False)
    return st


def close(st):
    pass


def snapshot(st):
    """structural walk: list of (path, type, oid) reachable from the root through children links"""
    out = {}
    problems = []
    seen = set()
    stack = [(st.cache._root, "")]
    while stack:
        node, path = stack.pop()
        if id(node) in seen:
            problems.append("cycle at %s" % path)
            continue
        seen.add(id(node))
        for name, ch in node.children.items():
            cp = path + "/" + name
            if ch.parent is not node:
                problems.append("parent link of %s does not point to its parent" % cp)
            if ch.name != name:
                problems.append("child key %s != node name %s" % (name, ch.name))
            if node.type != DIRECTORY:
                problems.append("file %s has children" % path)
            out[cp] = (ch.type, ch.oid, ch)
            stack.append((ch, cp))
    return out, problems


def invariants(st):
    vs = []
    snap, problems = snapshot(st)
    for p in problems:
        vs.append(viol("structure", p.split(" at ")[0][:60], {"problem": p}))
    ids = {}
    for p, (t, o, n) in snap.items():
        if o is not None:
            if o in ids:
                vs.append(viol("structure", "oid-twice", {"oid": o, "paths": [ids[o], p]}))
            ids[o] = p
    idmap = st.cache._oid_to_node
    for o, n in idmap.items():
        if n is st.cache._root:
            continue
        if o not in ids or snap[ids[o]][2] is not n:
            vs.append(viol("structure", "idmap-detached", {"oid": o, "node_name": n.name}))
    for o, p in ids.items():
        if o not in idmap:
            vs.append(viol("structure", "idmap-missing", {"oid": o, "path": p}))
    # views are inverses (through the public getters)
    for o in OIDS:
        try:
            p = st.cache.get_path(o)
        except Exception as e:
            vs.append(viol("getter-raises", "get_path:" + type(e).__name__, {"oid": o}))
            continue
        if p is not None:
            try:
                back = st.cache.get_oid(p)
            except Exception as e:
                vs.append(viol("getter-raises", "get_oid:" + type(e).__name__, {"path": p}))
                continue
            if back != o:
                vs.append(viol("not-inverse", "oid->path->oid", {"oid": o, "path": p, "back": back}))
    for p, (t, o, n) in snap.items():
        if o is not None:
            q = st.cache.get_path(o)
            if q is None or st.prov.normalize_path(q) != st.prov.normalize_path(p):
                vs.append(viol("not-inverse", "path->oid->path", {"path": p, "oid": o, "back": q}))
    # facts: the cache may forget, it must not answer with a superseded fact
    for p, (t, o, n) in snap.items():
        f = st.facts.f.get(st.prov.normalize_path(p))
        if f is None:
            vs.append(viol("superseded", "path-should-be-gone", {"path": p, "cache": [t.value, o]}))
        else:
            if f[0] != t:
                vs.append(viol("superseded", "type", {"path": p, "cache": t.value, "fact": f[0].value}))
            if o is not None and f[1] != o:
                vs.append(viol("superseded", "oid", {"path": p, "cache": o, "fact": f[1]}))
    return vs


def apply(st, op, check):
    c = st.cache
    k = op[0]
    before = None
    if check and k == "rename":
        snap, _ = snapshot(st)
        src = st.prov.normalize_path(op[1])
        before = {p[len(src):]: (t, o) for p, (t, o, n) in snap.items()
                  if st.prov.normalize_path(p) == src or st.prov.normalize_path(p).startswith(src + "/")}
    raised = None
    try:
        if k == "create":
            c.create(op[1], op[2])
        elif k == "mkdir":
            c.mkdir(op[1], op[2])
        elif k == "rename":
            c.rename(op[1], op[2])
        elif k == "delete_path":
            c.delete(path=op[1])
        elif k == "delete_oid":
            c.delete(oid=op[1])
        elif k == "set_oid":
            c.set_oid(op[1], op[2], TYPES[op[3]])
        elif k == "update":
            c.update(op[1], TYPES[op[2]], op[3])
        else:
            raise ValueError(k)
    except Exception as e:      # a rejected call must leave the structure coherent
        raised = e
    f = st.facts
    if raised is None:
        if k == "create":
            f.assert_node(op[1], FILE, op[2])
        elif k == "mkdir":
            f.assert_node(op[1], DIRECTORY, op[2])
        elif k == "rename":
            f.rename(op[1], op[2])
        elif k == "delete_path":
            f.delete_path(op[1])
        elif k == "delete_oid":
            f.drop_oid(op[1])
        elif k == "set_oid":
            f.set_oid(op[1], op[2], TYPES[op[3]])
        elif k == "update":
            f.update(op[1], TYPES[op[2]], op[3])
    else:
        # the call was rejected half way: whatever it evicted is forgotten, nothing new may be claimed;
        # the fact model treats the touched subtrees as unknown (weaker, never a false alarm)
        for p in [x for x in op[1:3] if isinstance(x, str)]:
            pass
    vs = invariants(st) if check else []
    # the cache may forget at any time: keep only the facts it still holds (one-step refinement check)
    snap, _ = snapshot(st)
    have = {st.prov.normalize_path(p) for p in snap}
    for p in list(f.f):
        if p not in have:
            del f.f[p]
    if not check:
        return []
    if raised is not None and not isinstance(raised, (AssertionError, ValueError, LookupError)):
        vs.append(viol("internal-error", type(raised).__name__, {"op": op, "error": repr(raised)}))
    if raised is not None:
        vs = [v for v in vs if v["kind"] == "internal-error" or v["kind"] == "structure" or v["kind"] == "not-inverse" or v["kind"] == "getter-raises"]
        for v in vs:
            v["sig"] = "after-%s:%s" % (type(raised).__name__, v["sig"])
        return vs
    # positive post-conditions
    if k in ("create", "mkdir") and op[2] is not None:
        if c.get_oid(op[1]) != op[2] or (c.get_path(op[2]) is None):
            vs.append(viol("postcondition", k + "-not-readable", {"op": op, "get_oid": c.get_oid(op[1])}))
    if k == "delete_path":
        if c.get_oid(op[1]) is not None or c.get_type(path=op[1]) is not None:
            vs.append(viol("postcondition", "delete-still-there", {"op": op}))
    if k == "delete_oid":
        if c.get_path(op[1]) is not None:
            vs.append(viol("postcondition", "delete-oid-still-there", {"op": op}))
    if k == "rename" and before and not st.prov.normalize_path(op[2]).startswith(st.prov.normalize_path(op[1]) + "/"):
        snap, _ = snapshot(st)
        dst = st.prov.normalize_path(op[2])
        after = {p[len(dst):]: (t, o) for p, (t, o, n) in snap.items()
                 if st.prov.normalize_path(p) == dst or st.prov.normalize_path(p).startswith(dst + "/")}
        if before != after:
            vs.append(viol("postcondition", "rename-subtree", {"op": op, "before": repr(before), "after": repr(after)}))
    return vs


def dump(st):
    snap, _ = snapshot(st)
    tree = tuple(sorted((p, t.value, o) for p, (t, o, n) in snap.items()))
    idmap = tuple(sorted((o, n.name, n.type.value) for o, n in st.cache._oid_to_node.items()))
    facts = tuple(sorted((p, t.value, o) for p, (t, o) in st.facts.f.items()))
    return (tree, idmap, facts)


def main(tier):
    rep = apix.run(PROP, __name__, tier,
                   rule="all call sequences up to depth 3 (quick) / 4 (thorough) over create/mkdir/rename/delete(path|oid)/"
                        "set_oid/update on 5 colliding paths and 3 ids (+None), case-sensitive and case-insensitive provider; "
                        "deduplicated on (tree, id map, fact model); non-trivial = distinct structural state beyond the empty cache",
                   technique="explicit-state BFS over API call sequences of the real cache against a fact model",
                   assumptions=["ids are small ints, names from a 5-path alphabet; metadata calls not enumerated"])
    return rep.finish()


def replay(path):
    return apix.replay(__name__, path)
