"""C20 on-demand sync: remote files stay remote until requested; unsync keeps remote (E1 with SmartCloudSync)."""
import fnmatch
import json

from .. import report
from ..world import World, ENGINE, ROOTS, _show_tree, _is_conflicted
from ..seqx import viol, digest
from .base import Driver, run_explore
import cloudsync.exceptions as ex
from cloudsync import LOCAL, REMOTE

PROP = "C20"
BASE_R = [["create", "r1", "1"], ["mkdir", "d"], ["create", "d/r2", "2"], ["create", "n.auto", "3"]]


class D(Driver):
    prop = PROP

    def make_world(self, job):
        w = World(job)
        w.app = job.get("app") or []
        w.app_pos = 0
        w.requested = set()
        w.local_origin = set()
        w.app_log = []
        w.step_viol = []
        for pat in _pats(w):        # one registered predicate per pattern, in this order
            w.cs.register_auto_sync_callback(lambda path, _p=pat: fnmatch.fnmatch(path.split("/")[-1], _p))

        def actions(world):
            return ["APP"] if world.app_pos < len(world.app) else []

        def users_done(world):
            return world.app_pos >= len(world.app)

        def action(world, a):
            op = world.app[world.app_pos]
            world.app_pos += 1
            world.clock.t = float(int(world.clock.t) + 1)
            kind = op[0]
            res = "ok"
            world.in_engine = "APP"
            try:
                if kind == "REQ":
                    world.requested.add(op[1])
                    world.unwanted.discard(op[1])
                    world.cs.smart_sync_path(ROOTS[0] + "/" + op[1], LOCAL)
                elif kind == "UNREQ":
                    remote_before = world.tree(1).get(op[1])
                    local_before = world.tree(0).get(op[1])
                    ret = world.cs.smart_unsync_path(ROOTS[0] + "/" + op[1], LOCAL)
                    world.requested.discard(op[1])
                    for s_, o_, k_ in world.user_log:       # the same object under the name it had before / after a local rename
                        if s_ == 0 and k_ and o_[0] == "rename" and op[1] in (o_[1], o_[2]):
                            world.requested.discard(o_[1])
                            world.requested.discard(o_[2])
                    world.unreq.append((op[1], local_before, remote_before))
                    if ret:
                        world.unwanted.add(op[1])       # it was wanted (requested or predicate-marked) and is not any more
                elif kind == "LIST":
                    lst = list(world.cs.smart_listdir_path(ROOTS[0] + ("/" + op[1] if op[1] else "")))
                    world.step_viol.extend(check_listing(world, op[1], lst))
                else:
                    raise ValueError(kind)
            except ex.CloudException as e:
                res = type(e).__name__
                if kind == "REQ":
                    world.requested.discard(op[1])
            finally:
                world.in_engine = None
            world.app_log.append((op, res))
        f = job.get("fault")
        w.fault_count = 0
        if f:
            def fault(side, name, phase, idx, a):
                if phase == "before" and side == f["side"] and name == f["name"]:
                    w.fault_count += 1
                    if w.fault_count == f["nth"]:
                        raise ex.CloudTemporaryError("injected transient error")
            w.fault = fault
        w.unreq = []
        w.unwanted = set()
        w.hooks["actions"] = actions
        w.hooks["action"] = action
        w.hooks["users_done"] = users_done
        w.hooks["key"] = lambda world: (world.app_pos, tuple(sorted(world.requested)), world.fault_count)
        return w

    def allowed_local(self, w, rel):
        if rel in w.requested or rel in w.local_origin:
            return True
        if any(fnmatch.fnmatch(rel.split("/")[-1], pat) for pat in _pats(w)) and rel not in w.unwanted:
            return True
        # a file the local user created (or renamed) is local-origin
        for side, op, ok in w.user_log:
            if side == 0 and ok and rel in op[1:3]:
                return True
        return False

    def on_step(self, w, a, pre):
        vs = []
        for rel, v in w.tree(0).items():
            if v is None or _is_conflicted(rel):
                continue
            if not self.allowed_local(w, rel) and (rel in w.unwanted and a != "APP" or not any(rel == u[0] for u in w.unreq)):
                vs.append(viol("downloaded-unrequested", rel, {"local": _show_tree(w.tree(0)), "requested": sorted(w.requested)}))
        for v in w.step_viol:
            vs.append(v)
        w.step_viol = []
        return vs

    def on_terminal(self, w):
        tl, tr = w.tree(0), w.tree(1)
        obs = {"L": _show_tree(tl), "R": _show_tree(tr), "requested": sorted(w.requested),
               "app": [[list(o), r] for o, r in w.app_log]}
        vs = []
        # folders mirrored; local creations uploaded
        for rel, v in tr.items():
            if v is None and rel not in tl and not _is_conflicted(rel):
                vs.append(viol("folder-not-mirrored", rel, obs))
        for rel, v in tl.items():
            if _is_conflicted(rel):
                continue
            if rel not in tr or (v is not None and tr[rel] != v):
                vs.append(viol("local-not-uploaded", rel, obs))
        # requested files are present and byte-equal
        # (a request is attached to the object, not to the name: it follows a local rename of the downloaded copy)
        req = set(w.requested)
        for side, op, ok in w.user_log:
            if side == 0 and ok and op[0] == "rename" and op[1] in req:
                req.discard(op[1])
                req.add(op[2])
        for rel in sorted(req):
            if rel in tr and tr[rel] is not None:
                if tl.get(rel) != tr[rel]:
                    vs.append(viol("requested-not-in-sync", rel, obs))
        # a local rename of a downloaded file reaches the remote (also when the file is un-requested right afterwards)
        for side, op, ok in w.user_log:
            if side == 0 and ok and op[0] == "rename" and op[1] in tr and op[2] not in tr:
                vs.append(viol("local-rename-not-pushed", "%s->%s" % (op[1], op[2]), obs))
        # files matching ANY registered auto-sync predicate are downloaded and kept in sync (unless un-requested)
        for rel, v in tr.items():
            if v is None or _is_conflicted(rel) or rel in w.unwanted or any(rel == u[0] for u in w.unreq):
                continue
            if any(fnmatch.fnmatch(rel.split("/")[-1], pat) for pat in _pats(w)) and tl.get(rel) != v:
                vs.append(viol("auto-sync-not-synced", rel, obs))
        # un-request: remote keeps the newest bytes, only the local copy goes
        for rel, lb, rb in w.unreq:
            deleted_by_user = any(op[0] == "delete" and op[1] == rel and ok for s, op, ok in w.user_log)
            if rel in w.requested or deleted_by_user:
                continue
            wrote_after = [op[2].encode() for s, op, ok in w.user_log if ok and op[0] == "write" and op[1] == rel]
            if rel not in tr:
                # (a pending local rename is pushed by the un-request: the remote file then lives on under the new name)
                moved = [op[2] for s, op, ok in w.user_log if ok and s == 0 and op[0] == "rename" and op[1] == rel]
                if rb is not None and not any(tr.get(m) == rb for m in moved):
                    vs.append(viol("unsync-deleted-remote", rel, obs))
            else:
                newest = wrote_after[-1] if wrote_after else (lb if lb is not None else rb)
                if wrote_after and tr[rel] not in wrote_after and lb is not None and tr[rel] != lb:
                    vs.append(viol("unsync-lost-local-edit", rel, obs))
        return obs, vs


def _pats(w):
    p = w.opts.get("autosync")
    if not p:
        return []
    return list(p) if isinstance(p, (list, tuple)) else [p]


def check_listing(w, rel, lst):
    vs = []
    tl = w.tree(0)
    pref = (rel + "/") if rel else ""
    local_files = {p[len(pref):] for p in tl if p.startswith(pref) and "/" not in p[len(pref):]}
    by = {}
    for i in lst:
        by[i.name] = i
    for name in local_files:
        if name not in by:
            vs.append(viol("listing-missing-local", name, {"listed": sorted(by)}))
        elif not by[name].is_synced:
            vs.append(viol("listing-local-not-synced", name, {"listed": sorted(by)}))
    st = w.cs.state
    for name, i in by.items():
        if name not in local_files and i.is_synced:
            vs.append(viol("listing-remote-only-marked-synced", name, {"listed": sorted(by)}))
    # every remote-only file the engine knows about is listed as not synced
    rdir = ROOTS[1] + ("/" + rel if rel else "")
    for e in st.get_all():
        rp = e[REMOTE].path
        if not rp or e[REMOTE].exists.value in ("trashed", "missing"):
            continue
        if rp.rsplit("/", 1)[0] != rdir:
            continue
        name = rp.rsplit("/", 1)[1]
        o = w.provs[1]._mock_fs.get(e[REMOTE].oid)
        if name not in local_files and o is not None and o.exists and e[LOCAL].exists.value not in ("trashed", "missing") \
                and not e[LOCAL].path:
            if name not in by:
                vs.append(viol("listing-missing-remote-only", name, {"listed": sorted(by)}))
    return vs


DRIVER = D()


def jobs(tier):
    out = []
    cfgs = ["oo", "po"] if tier == "quick" else ["oo", "po", "pp"]
    fam = []
    for R in ([], [["write", "r1"]], [["delete", "r1"]], [["create", "r3"]]):
        for L in ([], [["create", "l1"]]):
            fam.append(([["REQ", "r1"]], L, R))
    for R in ([], [["write", "r1"]]):
        for L in ([], [["write", "r1"]]):
            fam.append(([["REQ", "r1"], ["UNREQ", "r1"]], L, R))
    fam += [([["LIST", ""]], [], [["create", "r3"]]), ([["REQ", "r1"], ["LIST", ""]], [], []),
            ([["REQ", "d/r2"], ["LIST", "d"]], [], [["write", "d/r2"]]), ([["UNREQ", "r1"]], [], [["write", "r1"]]),
            ([["LIST", ""]], [["create", "l1"]], [["delete", "r1"]]), ([], [["create", "l1"], ["mkdir", "m"]], [["mkdir", "e"]]),
            ([["REQ", "r1"], ["UNREQ", "r1"], ["REQ", "r1"]], [], [["write", "r1"]]),
            ([["REQ", "r1"], ["UNREQ", "r1"], ["REQ", "r1"]], [], []),
            ([["REQ", "d/r2"], ["UNREQ", "d/r2"], ["REQ", "d/r2"], ["LIST", "d"]], [], []),
            ([["UNREQ", "n.auto"]], [], []), ([["UNREQ", "n.auto"]], [], [["write", "n.auto"]]),
            ([["UNREQ", "n.auto"], ["LIST", ""]], [], [])]
    for cfg in cfgs:
        for auto in (None, "*.auto", "*"):
            for app, L, R in fam:
                if auto and len(app) > 2:
                    continue
                st = [[list(op) + (["L%d" % (i + 1)] if op[0] in ("create", "write") else []) for i, op in enumerate(L)],
                      [list(op) + (["R%d" % (i + 1)] if op[0] in ("create", "write") else []) for i, op in enumerate(R)]]
                opts = {"smart": True, "check_base": False, "base_side": 1}
                if auto:
                    opts["autosync"] = auto
                out.append({"prop": PROP, "cfg": cfg, "order": "asc", "base": BASE_R, "scripts": st, "app": app, "opts": opts,
                            "mode": {"k": None, "cap": 2500 if tier == "quick" else 10000, "depth": 60, "audit": 0}})
    # a downloaded file is renamed locally and un-requested before the engine has synced the rename
    for cfg in cfgs:
        for app, L in (([["REQ", "r1"], ["UNREQ", "k1"]], [["rename", "r1", "k1"]]),
                       ([["REQ", "d/r2"], ["UNREQ", "d/k2"]], [["rename", "d/r2", "d/k2"]]),
                       ([["REQ", "r1"], ["UNREQ", "r1"]], [["rename", "r1", "k1"]]),
                       ([["REQ", "d/r2"], ["UNREQ", "d/r2"]], [["rename", "d/r2", "d/k2"]]),
                       ([["REQ", "r1"]], [["rename", "r1", "k1"]])):
            out.append({"prop": PROP, "cfg": cfg, "order": "asc", "base": BASE_R, "scripts": [L, []], "app": app,
                        "opts": {"smart": True, "check_base": False, "base_side": 1},
                        "mode": {"k": None, "cap": 2500 if tier == "quick" else 10000, "depth": 60, "audit": 0}})
    # several registered predicates: a file matching only a later one is auto-synced too
    base2 = BASE_R + [["create", "m.cfg", "4"], ["create", "d/k.cfg", "5"]]
    for cfg in cfgs:
        for pats in (["*.auto", "*.cfg"], ["*.cfg", "*.auto"], ["*.none", "*.cfg"]):
            for app, L, R in (([], [], []), ([], [], [["write", "m.cfg", "R1"]]), ([["LIST", ""]], [], []),
                              ([["UNREQ", "m.cfg"]], [], [])):
                out.append({"prop": PROP, "cfg": cfg, "order": "asc", "base": base2, "scripts": [L, R], "app": app,
                            "opts": {"smart": True, "check_base": False, "base_side": 1, "autosync": pats},
                            "mode": {"k": None, "cap": 2500 if tier == "quick" else 10000, "depth": 60, "audit": 0}})
    # a transient provider error while an un-request pushes the pending local edit up: the edit must not be dropped
    for cfg in cfgs:
        for path in ("r1", "d/r2"):
            for nth in (1, 2):
                out.append({"prop": PROP, "cfg": cfg, "order": "asc", "base": BASE_R,
                            "scripts": [[["write", path, "L1"]], []], "app": [["REQ", path], ["UNREQ", path]],
                            "fault": {"side": 1, "name": "upload", "nth": nth},
                            "opts": {"smart": True, "check_base": False, "base_side": 1},
                            "mode": {"k": None, "cap": 2500 if tier == "quick" else 10000, "depth": 60, "audit": 0}})
    return out


def run_job(job):
    return run_explore(DRIVER, job)


def main(tier):
    rep = report.Report(PROP, tier,
                        rule="SmartCloudSync over a remote tree {r1, d/, d/r2, n.auto}; application scripts (request r1 / request+unrequest / "
                             "request d/r2 / list / unrequest without request / request-unrequest-request) x remote scripts (edit, delete, "
                             "create) x local scripts (create, edit of the downloaded copy) x auto-sync predicate {none, *.auto, *}, every "
                             "interleaving of application calls, user operations and engine steps; after every action no local file that is "
                             "not local-origin, requested or predicate-matched; listing flags; at quiet states folders mirrored, local "
                             "creations uploaded, requested files byte-equal, un-request keeps the remote copy with the newest bytes",
                        technique="explicit-state model checking of the implementation (exhaustive schedule exploration)")
    rep.add_results(report.pmap(__name__, jobs(tier), progress=100))
    return rep.finish()
