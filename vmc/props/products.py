"""
Shared machinery for the 'base run x disturbance' properties C06 (restart), C07 (crash), C10 (faults),
C14 (event mangling): prompt base run, judging, differential gating (DESIGN 3.7).
"""
import json

from ..world import World, NoQuiescence, trees_equal_mod_conflicted, artefacts, _show_tree, _is_conflicted, ENGINE
from ..seqx import viol, digest
from ..models import base_tree
from ..world import BASES


def judge(w, fold=False):
    """quiet-state verdicts shared by the product properties"""
    tl, tr = w.tree(0), w.tree(1)
    out = {"converged": trees_equal_mod_conflicted(tl, tr, fold), "artefacts": sorted(set(artefacts(tl) + artefacts(tr))),
           "trees": {"L": _show_tree(tl), "R": _show_tree(tr)}}
    have = w.all_contents()
    must = (set(w.written) | set(getattr(w, "base_contents", ())) | set(getattr(w, "unsynced_base_contents", ()))) - w.destroyed
    out["lost"] = sorted(c.decode("latin1") for c in must if c not in have)
    try:        # quiet (no step changes anything) but the engine still reports pending work = looping in place
        out["busy"] = sorted(str(e[0]._path or e[1]._path) for e in w.cs.state._changeset) if w.cs.busy else []
    except Exception:
        out["busy"] = []
    return out


def spurious_transfers(w, since=0):
    """engine create/upload whose target already held identical bytes at that path (recorded by the after_write hook)"""
    return [x for x in getattr(w, "spurious", [])[since:]]


def install_spurious_hook(w):
    """record, for every engine create/upload, whether identical bytes were already at the target path"""
    w.spurious = []
    w._pre_content = {}
    for side, p in enumerate(w.provs):
        for name in ("create", "upload"):
            _wrap(w, side, p, name)


def _wrap(w, side, p, name):
    inner = getattr(p, name)

    def wrapper(*a, **kw):
        if w.in_engine is None:
            return inner(*a, **kw)
        if name == "create":
            path = a[0]
            o = p._mock_fs.get(p.normalize_path(path))
        else:
            o = p._mock_fs.get(a[0])
            path = o.path if o is not None else None
        before = o.contents if (o is not None and o.exists) else None
        ret = inner(*a, **kw)
        o2 = p._mock_fs.get(ret.oid) if ret is not None else None
        after = o2.contents if o2 is not None else None
        if before is not None and before == after:
            w.spurious.append((w.in_engine, side, name, path))
        return ret
    setattr(p, name, wrapper)


def settle_verdict(w, limit=120):
    """run the fair schedule to quiescence; returns None or a no-quiescence violation"""
    try:
        w.settle(limit=limit)
        return None
    except NoQuiescence as e:
        return viol("noquiesce", "after-disturbance", {"error": str(e)})


def remaining_user_ops(w):
    """apply the not yet executed user operations of both scripts (users keep working while the engine is down)"""
    n = 0
    for side in (0, 1):
        while w.pos[side] < len(w.scripts[side]):
            w.user(side)
            n += 1
    return n


def reference_tree(job):
    t = base_tree(BASES[job["base"]] if isinstance(job["base"], str) else job["base"])
    for side in (0, 1):
        for op in job["scripts"][side]:
            t.apply(op)
    return t
