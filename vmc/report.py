"""
Runner plumbing shared by all checks: process pool, evidence files, replay files, known findings.
"""
import os
import sys
import json
import time
import random
import hashlib
import importlib
import traceback
import multiprocessing as mp

VERIF = os.path.dirname(os.path.dirname(os.path.abspath(__file__)))
EVIDENCE = os.environ.get("VMC_EVIDENCE_DIR") or os.path.join(VERIF, "evidence")      # redirected for mutant runs only
REPLAYS = os.environ.get("VMC_REPLAY_DIR") or os.path.join(VERIF, "replays")
KNOWN = os.path.join(VERIF, "known_findings.json")


def seed():
    try:
        return int(os.environ.get("VERIF_SEED", "0"))
    except ValueError:
        return 0


def workers():
    try:
        return max(1, int(os.environ.get("VMC_WORKERS", str(min(16, os.cpu_count() or 1)))))
    except ValueError:
        return 8


def load_known():
    try:
        with open(KNOWN) as f:
            d = json.load(f)
    except FileNotFoundError:
        return {}
    out = {}
    for e in d.get("findings", []):
        out[(e["property"], e["job"], e["kind"], e["sig"])] = e
    return out


def digest(s):
    return hashlib.sha1(s.encode()).hexdigest()[:12]


# ------------------------------------------------------------------------------------------------
def _init_worker():
    from . import env
    env.after_fork()
    import gc
    gc.freeze()


def _component_raised(e):
    """an exception that escaped from the code under test (innermost frame inside the cloudsync package) while the
    harness drove or observed it is a finding about that code, not a harness failure"""
    if type(e).__name__ in ("HarnessError", "ReplayDivergence", "NoQuiescence"):
        return None
    tb = traceback.extract_tb(e.__traceback__)
    if not tb:
        return None
    last = tb[-1]
    fn = last.filename.replace("\\", "/")
    if "/cloudsync/" not in fn or "/cloudsync/tests/" in fn:
        return None
    return {"kind": "component-raised", "sig": "%s@%s.%s" % (type(e).__name__, fn.rsplit("/", 1)[-1][:-3], last.name),
            "detail": {"error": repr(e)[:300], "trace": traceback.format_exc(limit=6)[-1200:]}, "hist": []}


def _work(arg):
    modname, job = arg
    t0 = time.perf_counter()
    c0 = time.process_time()
    try:
        mod = importlib.import_module(modname)
        out = mod.run_job(job)
        out["job"] = job
        out["wall"] = time.perf_counter() - t0
        out["cpu"] = time.process_time() - c0
        return out
    except Exception as e:
        if type(e).__name__ == "BaseSyncFailed":
            return {"job": job, "states": 1, "transitions": 1, "wall": time.perf_counter() - t0,
                    "violations": [{"kind": "base-sync-failed", "sig": "base", "detail": {"error": str(e)[:400]}, "hist": []}]}
        if type(e).__name__ == "PreFailed":      # phased job whose preparatory history does not end converged: gated out
            return {"job": job, "states": 1, "transitions": 1, "wall": time.perf_counter() - t0, "violations": [],
                    "sample": {"note": "gated: %s" % e}, "extra": {"base_runs_gated_out": 1}}
        v = _component_raised(e)
        if v is not None:
            return {"job": job, "states": 1, "transitions": 1, "wall": time.perf_counter() - t0, "violations": [v]}
        return {"job": job, "harness_error": "%s: %s" % (type(e).__name__, e),
                "trace": traceback.format_exc(limit=12), "wall": time.perf_counter() - t0}
    except BaseException as e:          # harness failure, never a violation
        return {"job": job, "harness_error": "%s: %s" % (type(e).__name__, e),
                "trace": traceback.format_exc(limit=12), "wall": time.perf_counter() - t0}


def pmap(modname, jobs, progress=None):
    """run jobs over a process pool; order of results is not significant (VERIF_SEED permutes dispatch)"""
    jobs = list(jobs)
    rnd = random.Random(seed())
    idx = list(range(len(jobs)))
    rnd.shuffle(idx)
    # heaviest first when a weight is given, otherwise seed order
    idx.sort(key=lambda i: -jobs[i].get("weight", 0))
    n = workers()
    results = [None] * len(jobs)
    if n == 1 or len(jobs) <= 1:
        from . import env   # noqa
        for c, i in enumerate(idx):
            results[i] = _work((modname, jobs[i]))
        return results
    ctx = mp.get_context("fork")
    import gc
    gc.collect()
    gc.freeze()         # children must not touch (copy-on-write fault) the parent's heap in every gen-2 collection
    with ctx.Pool(n, initializer=_init_worker) as pool:
        it = pool.imap_unordered(_work_idx, [(i, modname, jobs[i]) for i in idx], chunksize=1)
        done = 0
        for i, r in it:
            results[i] = r
            done += 1
            if progress and done % progress == 0:
                print("  .. %d/%d jobs" % (done, len(jobs)), file=sys.stderr, flush=True)
    return results


def _work_idx(arg):
    i, modname, job = arg
    return i, _work((modname, job))


# ------------------------------------------------------------------------------------------------
class Report:
    """collects per-job results of one check run and produces evidence / verdict"""

    def __init__(self, prop, tier, rule, assumptions=(), technique=""):
        self.prop = prop
        self.tier = tier
        self.rule = rule
        self.assumptions = list(assumptions)
        self.technique = technique
        self.t0 = time.time()
        self.cov = {"states": 0, "transitions": 0, "evaluations": 0, "traces_validated_against_impl": 0,
                    "distinct_nontrivial": 0, "jobs": 0, "jobs_capped": 0, "merge_audits": 0, "rebuilds": 0,
                    "terminal_states": 0, "distinct_outcomes": 0, "samples": []}
        self.extra = {}
        self.violations = []        # (job, violation dict)
        self.harness_errors = []
        self.parts = {}
        self._outcomes = set()
        self._seen_viol = set()

    def add_results(self, results, part=None):
        pc = self.parts.setdefault(part or "main", {"jobs": 0, "states": 0, "transitions": 0, "capped": 0,
                                                    "violating_jobs": 0})
        for r in results:
            if r is None:
                continue
            if "harness_error" in r:
                self.harness_errors.append(r)
                continue
            c = self.cov
            c["jobs"] += 1
            pc["jobs"] += 1
            for k_src, k_dst in (("states", "states"), ("transitions", "transitions"), ("audits", "merge_audits"),
                                 ("rebuilds", "rebuilds"), ("terminals", "terminal_states"),
                                 ("evaluations", "evaluations"), ("nontrivial", "distinct_nontrivial"),
                                 ("traces", "traces_validated_against_impl")):
                c[k_dst] += int(r.get(k_src, 0))
            pc["states"] += int(r.get("states", 0))
            pc["transitions"] += int(r.get("transitions", 0))
            if r.get("capped"):
                c["jobs_capped"] += 1
                pc["capped"] += 1
            for o in r.get("outcomes", []):
                self._outcomes.add(o)
            if r.get("sample") is not None and len(c["samples"]) < 6:
                c["samples"].append(r["sample"])
            if r.get("violations"):
                pc["violating_jobs"] += 1
            for v in r.get("violations", []):
                ident = (json.dumps(r["job"], sort_keys=True, default=repr), v["kind"], v["sig"])
                if ident in self._seen_viol:
                    continue
                self._seen_viol.add(ident)
                self.violations.append((r["job"], v))
            for k, v in (r.get("extra") or {}).items():
                if isinstance(v, (int, float)):
                    self.extra[k] = self.extra.get(k, 0) + v
                else:
                    self.extra.setdefault(k, v)

    # ------------------------------------------------------------------------------------------
    def finish(self, replay_template=None):
        from .seqx import job_id
        known = load_known()
        c = self.cov
        c["distinct_outcomes"] = len(self._outcomes)
        new, matched = [], []
        for job, v in self.violations:
            key = (self.prop, job_id(job), v["kind"], v["sig"])
            if key in known:
                matched.append((job, v, known[key]))
            else:
                new.append((job, v))
        os.makedirs(REPLAYS, exist_ok=True)
        os.makedirs(EVIDENCE, exist_ok=True)
        if os.environ.get("VMC_LIST_FINDINGS"):
            # maintenance mode (never used by a registered command): dump unlisted violations for review
            cand = os.path.join(VERIF, "findings_candidates")
            os.makedirs(cand, exist_ok=True)
            with open(os.path.join(cand, "%s-%s.json" % (self.prop, self.tier)), "w") as f:
                json.dump([{"property": self.prop, "job": job_id(job), "kind": v["kind"], "sig": v["sig"],
                            "hist": v.get("hist"), "detail": v.get("detail")} for job, v in new], f, indent=0,
                          default=repr)
            print("wrote %d candidate findings" % len(new))
        lines = []
        seen_groups = {}
        for job, v, e in matched:
            g = e.get("group", "")
            seen_groups[g] = seen_groups.get(g, 0) + 1
            lines.append("KNOWN-FINDING: property=%s group=%s kind=%s sig=%s job=%s" %
                         (self.prop, g, v["kind"], v["sig"], _short_job(job)))
        out_paths = []
        for job, v in new:
            name = "%s-%s.json" % (self.prop, digest(job_id(job) + v["kind"] + v["sig"]))
            path = os.path.join(REPLAYS, name)
            with open(path, "w") as f:
                json.dump({"property": self.prop, "job": job, "hist": v.get("hist"), "kind": v["kind"],
                           "sig": v["sig"], "detail": v.get("detail")}, f, indent=1, default=repr)
            out_paths.append(path)
            lines.append("VIOLATION property=%s replay=%s" % (self.prop, path))
            lines.append("  kind=%s sig=%s job=%s hist=%s" % (v["kind"], v["sig"], _short_job(job),
                                                           " ".join(map(str, v.get("hist") or []))))
        for h in self.harness_errors[:5]:
            lines.append("HARNESS-ERROR %s job=%s" % (h["harness_error"], _short_job(h["job"])))
            if h.get("trace"):
                lines.append(h["trace"])
        wall = time.time() - self.t0
        c["exhaustive"] = (c["jobs_capped"] == 0 and not self.harness_errors)
        c["rule"] = self.rule
        c["known_findings_matched"] = len(matched)
        c["known_finding_groups"] = seen_groups
        c["parts"] = self.parts
        c.update(self.extra)
        if not c["samples"]:
            c["samples"] = [{"note": "no sample recorded"}]
        if c["evaluations"] == 0:
            c["evaluations"] = c["terminal_states"] or c["jobs"]
        if c["traces_validated_against_impl"] == 0:
            # every explored transition is an implementation transition (no separate model)
            c["traces_validated_against_impl"] = c["evaluations"]
        ev = {"property_id": self.prop, "tier": self.tier, "seed": seed(), "level": "model_checking",
              "coverage": c, "assumptions": self.assumptions, "wall_s": round(wall, 2),
              "violations": len(new), "technique": self.technique,
              "harness_errors": len(self.harness_errors)}
        with open(os.path.join(EVIDENCE, "%s.json" % self.prop), "w") as f:
            json.dump(ev, f, indent=1, default=repr)
        nv = 0
        for ln in lines:
            if ln.startswith("VIOLATION") or ln.startswith("  kind="):
                nv += 1
                if nv > 120:
                    continue        # every violation has its replay file; only the first 60 are echoed
            print(ln)
        print("%s %s: jobs=%d states=%d transitions=%d terminals=%d outcomes=%d capped=%d audits=%d known=%d "
              "new_violations=%d harness_errors=%d wall=%.1fs" %
              (self.prop, self.tier, c["jobs"], c["states"], c["transitions"], c["terminal_states"],
               c["distinct_outcomes"], c["jobs_capped"], c["merge_audits"], len(matched), len(new),
               len(self.harness_errors), wall))
        if new:
            return 1            # (harness errors, if any, are listed above; a violation was shown and takes precedence)
        if self.harness_errors:
            return 2
        return 0


def _short_job(job):
    s = json.dumps({k: job[k] for k in ("cfg", "order", "base", "scripts", "opts", "phases", "side", "app", "late", "schedule", "starve",
                                      "kind", "scenario", "params") if k in job},
                   separators=(",", ":"))
    return s if len(s) < 400 else s[:400] + "..."
