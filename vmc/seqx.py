"""
E1: explicit-state exploration of the real sync engine (stateful DFS with replay).

A state is reached by an action history; the canonical key (World.key) deduplicates. `k=None`
explores every interleaving (`full`); an integer k explores every execution with at most k
deviations from the prompt default schedule (CHESS-style deviation bounding).  The default action
of a state is the first action, in the order IL, IR, S, UL, UR (+extras), that changes the state.

Driver protocol (see props/*.py):
    drv.make_world(job)                     -> World
    drv.on_step(world, action, pre)         -> list of violation dicts       (monitor, after a transition)
    drv.pre_step(world, action)             -> opaque 'pre' passed to on_step (optional)
    drv.on_terminal(world)                  -> (observation, [violations])
"""
import collections
import hashlib
import json

from .world import World, ENGINE, HarnessError, NoQuiescence


class ReplayDivergence(HarnessError):
    pass


def viol(kind, sig, detail=None):
    return {"kind": kind, "sig": sig, "detail": detail}


class Result:
    def __init__(self, job):
        self.job = job
        self.states = 0
        self.transitions = 0
        self.noops = 0
        self.merges = 0
        self.rebuilds = 0
        self.audits = 0
        self.terminals = 0
        self.max_depth = 0
        self.capped = False
        self.outcomes = collections.Counter()   # repr(observation) -> count of terminal states
        self.violations = []                     # dicts: kind, sig, detail, hist
        self.nontrivial = 0
        self.sample = None
        self.k_done = None
        self.liveness = {}

    def add_violation(self, v, hist, src=None):
        """src = (state id the violating transition starts from, 1) or (terminal state id, 0): used after the exploration
        to compute the length of the SHORTEST explored execution that shows this violation (min_steps)"""
        v = dict(v)
        v["hist"] = list(hist)
        for old in self.violations:
            if old["kind"] == v["kind"] and old["sig"] == v["sig"]:
                srcs = old.setdefault("_srcs", set())
                if src is not None:
                    srcs.add(src)
                if len(old["hist"]) > len(v["hist"]):
                    keep = old["_srcs"]
                    old.update(v)
                    old["_srcs"] = keep
                return
        v["_srcs"] = {src} if src is not None else set()
        self.violations.append(v)

    def finish_distances(self, edges):
        import collections as _c
        dist = {0: 0}
        q = _c.deque([0])
        while q:
            s = q.popleft()
            for t in edges[s].values():
                if t not in dist:
                    dist[t] = dist[s] + 1
                    q.append(t)
        for v in self.violations:
            srcs = v.pop("_srcs", set())
            ds = [dist[s] + extra for (s, extra) in srcs if s in dist]
            v["min_steps"] = min(ds) if ds else len(v.get("hist") or [])

    def summary(self):
        return {"states": self.states, "transitions": self.transitions, "noops": self.noops, "merges": self.merges,
                "rebuilds": self.rebuilds, "audits": self.audits, "terminals": self.terminals,
                "max_depth": self.max_depth, "capped": self.capped, "outcomes": len(self.outcomes),
                "violations": len(self.violations)}


def build(drv, job, hist, monitors=False, res=None):
    w = drv.make_world(job)
    try:
        for a in hist:
            w.act(a)
    except BaseException:
        w.close()
        raise
    return w


def _interleaved(hist):
    """non-trivial: at least two different actors acted"""
    return len(set(hist)) >= 2


def explore(drv, job, k=None, cap=4000, H=None, audit_every=0, order=None, max_depth=120, depth_is_bound=False):
    res = Result(job)
    nuser = sum(len(s) for s in (job.get("scripts") or [[], []]))
    if H is None:
        H = 40 + 25 * max(nuser, 1)
    w = build(drv, job, ())
    k0 = w.key()
    seen = {k0: 0}              # key -> state id
    key_of = [k0]
    hist_of = [()]
    devs_of = [0]               # fewest deviations with which the state was expanded
    edges = [dict()]            # sid -> {action: sid}
    users_done = [w.users_done()]
    res.states = 1
    merges_seen = 0

    def order_actions(world):
        acts = world.actions()
        if order:
            # job-specific default schedule: e.g. ["IL","S","UL","UR","IR"] = remote events are taken in only when
            # nothing else can happen (a slow poller); deviations are counted against this order
            rank = {a: i for i, a in enumerate(order)}
            return sorted(acts, key=lambda a: rank.get(a, len(rank)))
        eng = [a for a in acts if a in ENGINE]
        rest = [a for a in acts if a not in ENGINE and a not in ("UL", "UR")]
        usr = [a for a in acts if a in ("UL", "UR")]
        return eng + rest + usr

    # frame: [sid, hist, todo(list), dev_used, default_found(bool), since_user]
    stack = [[0, (), order_actions(w), 0, False, 0]]
    live = True
    try:
        while stack:
            fr = stack[-1]
            sid, hist, todo, dev, default_found, since_user = fr
            if not todo:
                # expanded completely
                if live and users_done[sid] and all(t == sid for t in edges[sid].values()):
                    _terminal(drv, res, w, hist, sid)
                stack.pop()
                live = False
                continue
            a = todo.pop(0)
            # deviation accounting: the first state-changing action in order is free
            cost = 0 if not default_found else 1
            if k is not None and dev + cost > k:
                continue
            if not live:
                w.close()
                w = build(drv, job, hist)
                res.rebuilds += 1
                if w.key() != key_of[sid]:
                    raise ReplayDivergence("replay divergence at %r" % (hist,))
                live = True
            pre = drv.pre_step(w, a) if hasattr(drv, "pre_step") else None
            w.act(a)
            res.transitions += 1
            knew = w.key()
            tsid = seen.get(knew)
            if tsid == sid:
                res.noops += 1
                edges[sid][a] = sid
                continue
            # state changed: this was an enabled action
            nh = hist + (a,)
            if not default_found:
                fr[4] = True
            ndev = dev + cost
            for v in drv.on_step(w, a, pre):
                res.add_violation(v, nh, src=(sid, 1))
            if tsid is not None:
                edges[sid][a] = tsid
                res.merges += 1
                merges_seen += 1
                if audit_every and merges_seen % audit_every == 1:
                    _audit(drv, job, nh, hist_of[tsid], res)
                if k is not None and ndev < devs_of[tsid]:
                    # reached with fewer deviations: re-expand from here
                    devs_of[tsid] = ndev
                    hist_of[tsid] = nh
                    ns = since_user + 1 if a in ENGINE else 0
                    stack.append([tsid, nh, order_actions(w), ndev, False, ns])
                    continue
                live = False
                continue
            tsid = len(hist_of)
            seen[knew] = tsid
            key_of.append(knew)
            hist_of.append(nh)
            devs_of.append(ndev)
            edges.append(dict())
            edges[sid][a] = tsid
            users_done.append(w.users_done())
            res.states += 1
            if len(nh) > res.max_depth:
                res.max_depth = len(nh)
            if res.states >= cap:
                res.capped = True
                break
            ns = since_user + 1 if (a in ENGINE and users_done[tsid]) else 0
            if len(nh) >= max_depth:
                if not depth_is_bound:
                    res.capped = True       # not expanded further; reported as capped
                live = False
                continue
            if k is not None and ns > H:
                res.add_violation(viol("noquiesce", "path>%d" % H, {"steps_after_last_user_op": ns}), nh)
                live = False
                continue
            stack.append([tsid, nh, order_actions(w), ndev, False, ns])
    finally:
        w.close()
    res.k_done = k
    if k is None and not res.capped:
        _fair_liveness(res, edges, users_done, hist_of, H)
    res.finish_distances(edges)
    res.nontrivial = sum(1 for h in hist_of if _interleaved(h))
    res.sample = {"job": job_id(job), "hist": list(hist_of[-1])}
    res._graph = (seen, hist_of, edges, users_done)
    return res


def _terminal(drv, res, w, hist, sid=None):
    res.terminals += 1
    obs, vs = drv.on_terminal(w)
    res.outcomes[json.dumps(obs, sort_keys=True, default=repr)] += 1
    for v in vs:
        res.add_violation(v, hist, src=(sid, 0) if sid is not None else None)


def _audit(drv, job, h1, h2, res):
    """one-step bisimulation audit of a merge: both histories must have pairwise equal successors"""
    res.audits += 1
    wa = build(drv, job, h1)
    wb = build(drv, job, h2)
    try:
        if wa.key() != wb.key():
            raise ReplayDivergence("audit: merged histories no longer agree %r %r" % (h1, h2))
        acts = wa.actions()
    finally:
        wa.close()
        wb.close()
    for act in acts:
        wa = build(drv, job, h1)
        try:
            wa.act(act)
            ka = wa.key()
        finally:
            wa.close()
        wb = build(drv, job, h2)
        try:
            wb.act(act)
            kb = wb.key()
        finally:
            wb.close()
        if ka != kb:
            raise HarnessError("merge audit failed: %r vs %r diverge on %r (%s)" % (h1, h2, act, _diff(ka, kb)))


def _diff(a, b, path=""):
    if type(a) != type(b) or not isinstance(a, tuple):
        return "%s: %r != %r" % (path, a, b) if a != b else ""
    if len(a) != len(b):
        return "%s: len %d != %d" % (path, len(a), len(b))
    for i, (x, y) in enumerate(zip(a, b)):
        if x != y:
            return _diff(x, y, path + "/%d" % i)
    return ""


def _fair_liveness(res, edges, users_done, hist_of, H):
    """from every users-done state the round-robin schedule IL,IR,S must reach a terminal state"""
    n = len(edges)
    verdict = {}
    worst = 0
    for s0 in range(n):
        if not users_done[s0]:
            continue
        sid, ptr, steps, idle = s0, 0, 0, 0
        path = set()
        ok = None
        while True:
            if (sid, ptr) in verdict:
                ok = verdict[(sid, ptr)]
                break
            if (sid, ptr, idle) in path:
                ok = False if idle < len(ENGINE) else True
                break
            path.add((sid, ptr, idle))
            a = ENGINE[ptr]
            t = edges[sid].get(a)
            if t is None:
                ok = None       # edge never executed (deviation pruning); undecided
                break
            ptr = (ptr + 1) % len(ENGINE)
            if t == sid:
                idle += 1
                if idle >= len(ENGINE):
                    ok = True
                    break
                continue
            idle = 0
            steps += 1
            sid = t
            if steps > H:
                ok = False
                break
        worst = max(worst, steps)
        if ok is False:
            res.add_violation(viol("noquiesce", "fair-cycle", {"from_state_hist": list(hist_of[s0]), "steps": steps}),
                              hist_of[s0])
        for (s, p, i) in path:
            if i == 0 and ok is not None:
                verdict.setdefault((s, p), ok)
    res.liveness = {"fair_max_steps": worst}


def job_id(job):
    j = {k: job[k] for k in sorted(job) if k not in ("prop", "mode", "k", "cap", "audit")}
    return json.dumps(j, sort_keys=True, separators=(",", ":"))


def digest(s):
    return hashlib.sha1(s.encode()).hexdigest()[:12]


def replay(drv, job, hist, verbose=True, out=print):
    """re-execute a history with nothing but World; prints each step"""
    w = drv.make_world(job)
    vs = []
    try:
        if verbose:
            out("job: " + job_id(job))
            out("initial: " + json.dumps(w.describe()["tree_local"]))
        for a in hist:
            pre = drv.pre_step(w, a) if hasattr(drv, "pre_step") else None
            what = ""
            if a in ("UL", "UR"):
                s = 0 if a == "UL" else 1
                what = " " + json.dumps(w.scripts[s][w.pos[s]])
            w.act(a)
            got = drv.on_step(w, a, pre)
            vs.extend(got)
            if verbose:
                d = w.describe()
                out("%-3s%s -> L=%s R=%s%s" % (a, what, json.dumps(d["tree_local"]), json.dumps(d["tree_remote"]),
                                              (" VIOLATION " + json.dumps(got, default=repr)) if got else ""))
        term = True
        k = w.key()
        for a in w.actions():
            if a in ("UL", "UR"):
                term = False
        if term:
            k = w.key()
            for a in ENGINE:
                w.act(a)
                if w.key() != k:
                    term = False
                    break
        if term and w.users_done():
            obs, tv = drv.on_terminal(w)
            vs.extend(tv)
            if verbose:
                out("terminal: " + json.dumps(obs, default=repr))
                if tv:
                    out("VIOLATION " + json.dumps(tv, default=repr))
        if verbose:
            for e in w.describe()["entries"]:
                out("  entry " + e)
    finally:
        w.close()
    return vs
