"""
E3: stateless exploration of real threads under a controlled scheduler (baton passing) with preemption bounding.

Exactly one controlled thread runs at a time; all others wait on private semaphores.  Scheduling points are
(i) every operation of the shims (Event, Thread, RLock/Lock, Queue, sleep) that the modules under test get in place
of `threading`, `queue` and `time`, and (ii) optionally every `line` trace event inside selected source files
(for code whose shared variables are plain unsynchronised attributes).  A blocked thread is disabled until its
condition holds; a thread blocked with a timeout may also be released by *firing the timeout* (virtual time then
jumps to its deadline).  "No enabled thread" is a deadlock verdict.  Exploration is depth-first over choice lists
with a preemption bound (switching away from a runnable thread, or firing a timeout while another thread is
runnable, costs 1).
"""
import sys
import threading as _th
import collections
import time as _time

CUR = None          # the scheduler of the execution in progress


class Abort(BaseException):
    pass


class CThread:
    def __init__(self, sched, name, target):
        self.sched, self.name, self.target = sched, name, target
        self.sem = _th.Semaphore(0)
        self.done = False
        self.blocked = None         # None or [kind, obj, deadline]
        self.exc = None
        self.shim = None
        self.real = _th.Thread(target=self._run, daemon=True, name="vmc-" + str(name))

    def _run(self):
        self.sem.acquire()
        if self.sched.aborting:
            self.done = True
            return
        if self.sched.trace_files:
            sys.settrace(self.sched.tracer)
        try:
            self.target()
        except Abort:
            pass
        except BaseException as e:      # noqa
            self.exc = e
        finally:
            sys.settrace(None)
            self.done = True
            self.sched.thread_finished(self)


def _ready(b):
    kind, obj, deadline = b
    if kind == "event":
        return obj._flag
    if kind == "join":
        return obj.done
    if kind == "queue":
        return bool(obj.items)
    if kind == "lock":
        return obj.owner is None
    return False            # 'sleep': only the timeout can release it


class Sched:
    def __init__(self, prefix=(), trace_files=(), step_limit=6000):
        self.prefix = list(prefix)
        self.trace_files = tuple(trace_files)
        self.threads = []
        self.cur = None
        self.points = []        # (order tuple, chosen index, cost of each alternative tuple)
        self.now = 0.0
        self.main_sem = _th.Semaphore(0)
        self.aborting = False
        self.deadlock = False
        self.horizon = False
        self.nsteps = 0
        self.step_limit = step_limit
        self.divergence = False

    # ---- tracing
    def tracer(self, frame, event, arg):
        if frame.f_code.co_filename.endswith(self.trace_files):
            return self.local
        return None

    def local(self, frame, event, arg):
        if event == "line":
            self.point()
        return self.local

    # ---- threads
    def spawn(self, name, target):
        t = CThread(self, name, target)
        self.threads.append(t)
        t.real.start()
        return t

    def current(self):
        return self.threads[self.cur]

    def _classify(self):
        eager, lazy = [], []
        for i, t in enumerate(self.threads):
            if t.done:
                continue
            if t.blocked is None or _ready(t.blocked):
                eager.append(i)
            elif t.blocked[2] is not None:
                lazy.append(i)
        # timeouts fire in deadline order by default (firing a later one first is a deviation)
        lazy.sort(key=lambda i: (self.threads[i].blocked[2], i))
        return eager, lazy

    def _choose(self, me_runnable):
        eager, lazy = self._classify()
        me = self.cur
        if not eager and not lazy:
            return None
        if me_runnable and me in eager:
            order = [me] + [i for i in eager if i != me] + lazy
            costs = [0] + [1] * (len(order) - 1)
        else:
            order = eager + lazy
            costs = [0] * len(eager) + [(1 if (eager or j > 0) else 0) for j in range(len(lazy))]
        k = len(self.points)
        c = self.prefix[k] if k < len(self.prefix) else 0
        if c >= len(order):
            self.divergence = True
            c = 0
        self.points.append((tuple(order), c, tuple(costs)))
        return order[c]

    def point(self):
        """called by the running thread at a scheduling point; may hand the baton to another thread"""
        if self.cur is None:
            return              # set-up code running outside the controlled threads
        if self.aborting:
            raise Abort()
        me = self.cur
        self.nsteps += 1
        if self.nsteps > self.step_limit:
            self.horizon = True
            self._abort()
        nxt = self._choose(True)
        if nxt is None:
            self.deadlock = True
            self._abort()
        if nxt != me:
            self._switch(me, nxt)

    def _switch(self, me, nxt):
        t = self.threads[nxt]
        if t.blocked is not None and not _ready(t.blocked):
            # released by its timeout: virtual time jumps to the deadline
            self.now = max(self.now, t.blocked[2])
            t.blocked[1:] = [t.blocked[1], None]
            t.timed_out = True
        self.cur = nxt
        t.sem.release()
        self.threads[me].sem.acquire()
        if self.aborting:
            raise Abort()

    def _abort(self):
        self.aborting = True
        self.main_sem.release()
        raise Abort()

    def block(self, kind, obj, timeout):
        """returns True if the condition holds, False if released by the timeout"""
        me = self.cur
        t = self.threads[me]
        t.timed_out = False
        t.blocked = [kind, obj, None if timeout is None else self.now + max(0.0, timeout)]
        if self.aborting:
            raise Abort()
        self.nsteps += 1
        if self.nsteps > self.step_limit:
            self.horizon = True
            self._abort()
        nxt = self._choose(False)
        if nxt is None:
            self.deadlock = True
            self._abort()
        if nxt != me:
            self._switch(me, nxt)
        else:
            if not _ready(t.blocked):
                self.now = max(self.now, t.blocked[2])
                t.timed_out = True
        ok = not t.timed_out
        t.blocked = None
        return ok

    def thread_finished(self, t):
        if self.aborting:
            if all(x.done for x in self.threads):
                pass
            return
        if all(x.done for x in self.threads):
            self.main_sem.release()
            return
        nxt = self._choose(False)
        if nxt is None:
            self.deadlock = True
            self.aborting = True
            self.main_sem.release()
            return
        nt = self.threads[nxt]
        if nt.blocked is not None and not _ready(nt.blocked):
            self.now = max(self.now, nt.blocked[2])
            nt.timed_out = True
        self.cur = nxt
        nt.sem.release()

    def run(self, timeout=20):
        global CUR
        CUR = self
        self.cur = 0
        self.threads[0].sem.release()
        ok = self.main_sem.acquire(timeout=timeout)
        if not ok:
            self.horizon = True
            self.aborting = True
        if self.aborting:
            for t in self.threads:
                if not t.done:
                    t.sem.release()
        for t in self.threads:
            t.real.join(2)


# ------------------------------------------------------------------------------------------------ shims
class ShimEvent:
    def __init__(self):
        self._flag = False

    def set(self):
        CUR.point()
        self._flag = True

    def clear(self):
        CUR.point()
        self._flag = False

    def is_set(self):
        return self._flag

    def wait(self, timeout=None):
        if self._flag:
            CUR.point()
            return True
        CUR.block("event", self, timeout)
        return self._flag


class ShimThread:
    def __init__(self, target=None, args=(), kwargs=None, daemon=None, name=None, group=None):
        self.target, self.args, self.kwargs, self.name, self.ct = target, args, kwargs or {}, name, None
        self.daemon = daemon

    def start(self):
        self.ct = CUR.spawn(self.name, lambda: self.target(*self.args, **self.kwargs))
        self.ct.shim = self
        CUR.point()

    def is_alive(self):
        return self.ct is not None and not self.ct.done

    def join(self, timeout=None):
        if self.ct is None or self.ct.done:
            CUR.point()
            return
        CUR.block("join", self.ct, timeout)

    def __eq__(self, o):
        return o is self

    def __ne__(self, o):
        return o is not self

    def __hash__(self):
        return id(self)


class _MainShim:
    name = "controlled"


class ShimRLock:
    reentrant = True

    def __init__(self):
        self.owner = None
        self.count = 0

    def acquire(self, blocking=True, timeout=-1):
        S = CUR
        if S is None or S.cur is None:          # set-up / tear-down code outside the controlled threads
            self.owner = "outside"
            self.count += 1
            return True
        me = S.cur
        if self.reentrant and self.owner == me:
            self.count += 1
            return True
        while True:
            if self.owner is None:
                S.point()               # scheduling point before taking the lock
                if self.owner is None:
                    self.owner = me
                    self.count = 1
                    return True
            else:
                if not blocking:
                    return False
                S.block("lock", self, None if timeout is None or timeout < 0 else timeout)

    def release(self):
        self.count -= 1
        if self.count <= 0:
            self.owner = None
            self.count = 0
            if CUR is not None and CUR.cur is not None:
                CUR.point()

    def __enter__(self):
        self.acquire()
        return self

    def __exit__(self, *a):
        self.release()

    def _is_owned(self):
        return self.owner == CUR.cur

    def locked(self):
        return self.owner is not None


class ShimLock(ShimRLock):
    reentrant = False


class ShimQueue:
    def __init__(self, maxsize=0):
        self.items = collections.deque()

    def put(self, x, block=True, timeout=None):
        CUR.point()
        self.items.append(x)

    def get(self, block=True, timeout=None):
        import queue as _q
        if not self.items:
            if not block:
                raise _q.Empty()
            CUR.block("queue", self, timeout)
            if not self.items:
                raise _q.Empty()
        else:
            CUR.point()
        return self.items.popleft()

    def empty(self):
        return not self.items

    def qsize(self):
        return len(self.items)


class ShimThreading:
    Event = ShimEvent
    Thread = ShimThread
    RLock = ShimRLock
    Lock = ShimLock

    @staticmethod
    def current_thread():
        ct = CUR.threads[CUR.cur]
        return ct.shim if ct.shim is not None else ct


class ShimQueueModule:
    Queue = ShimQueue
    import queue as _q
    Empty = _q.Empty


class ShimTime:
    @staticmethod
    def monotonic():
        return CUR.now

    @staticmethod
    def time():
        return CUR.now

    @staticmethod
    def sleep(s):
        if s and s > 0:
            CUR.block("sleep", None, s)
        else:
            CUR.point()


# ------------------------------------------------------------------------------------------------ exploration
def explore(run_one, bound, prefix0=(), max_execs=200000, deadline=None):
    """run_one(prefix) -> (sched, observation, violations).  DFS over choice lists with a preemption bound."""
    stats = {"executions": 0, "points": 0, "max_points": 0, "deadlocks": 0, "horizons": 0, "divergences": 0,
             "capped": False}
    outcomes = collections.Counter()
    viols = []
    stack = [list(prefix0)]
    first = True
    while stack:
        if stats["executions"] >= max_execs or (deadline and _time.time() > deadline):
            stats["capped"] = True
            break
        prefix = stack.pop()
        s, obs, vs = run_one(prefix)
        stats["executions"] += 1
        stats["points"] += len(s.points)
        stats["max_points"] = max(stats["max_points"], len(s.points))
        stats["deadlocks"] += int(s.deadlock)
        stats["horizons"] += int(s.horizon)
        stats["divergences"] += int(s.divergence)
        outcomes[repr(obs)] += 1
        choices = [p[1] for p in s.points]
        for v in vs:
            v = dict(v)
            v["hist"] = choices
            if not any(o["kind"] == v["kind"] and o["sig"] == v["sig"] for o in viols):
                viols.append(v)
            else:
                for o in viols:
                    if o["kind"] == v["kind"] and o["sig"] == v["sig"] and len(o["hist"]) > len(choices):
                        o["hist"] = choices
        used = 0
        costs_before = []
        for (order, c, costs) in s.points:
            costs_before.append(used)
            used += costs[c]
        start = len(prefix) if not first or prefix0 else 0
        start = len(prefix)
        for i in range(start, len(s.points)):
            order, c, costs = s.points[i]
            for alt in range(len(order)):
                if alt == c:
                    continue
                if costs_before[i] + costs[alt] > bound:
                    continue
                stack.append(choices[:i] + [alt])
        first = False
    return stats, outcomes, viols


def first_level(run_one, bound):
    """run the default schedule once and return (its result, the list of child prefixes) for parallel exploration"""
    s, obs, vs = run_one([])
    choices = [p[1] for p in s.points]
    used = 0
    kids = []
    for i, (order, c, costs) in enumerate(s.points):
        for alt in range(len(order)):
            if alt != c and used + costs[alt] <= bound:
                kids.append(choices[:i] + [alt])
        used += costs[c]
    return (s, obs, vs), kids
