"""
World: the real CloudSync engine over two MockProviders, closed by the harness.

A World is built from a job (plain dict, JSON-serialisable):
    cfg        provider flavour pair name (CFGS)
    order      'asc' | 'desc'  tie-break order of identity-hashed sets
    base       list of user ops applied to LOCAL and synced before exploration ('B1' etc. or explicit)
    scripts    [local ops, remote ops]; op = [kind, path, ...] with root-relative paths
               (a path starting with '/' is absolute = outside-the-root addressing, C12)
    opts       dict of property specific switches (storage, smart, per_event, roots_by_id, outside, ...)
Actions: 'UL','UR' next user op of a side; 'IL','IR' one intake step; 'S' one sync step; others are
registered by property drivers through World.extra_actions.
"""
import os
import math
import re
import itertools
from io import BytesIO

from . import env
from .env import S, M, C, EV, MK, RN, SM, PR

from cloudsync import CloudSync, LOCAL, REMOTE, DIRECTORY, FILE
from cloudsync.providers.mock import MockProvider
import cloudsync.exceptions as ex
from cloudsync.types import IgnoreReason

ROOTS = ("/local", "/remote")

CFGS = {
    # (oid_is_path, case_sensitive, filter_events) per side
    "oo": ((False, True, False), (False, True, False)),     # upstream fixture mock_oid_cs_unfiltered
    "po": ((True, True, False), (False, True, True)),       # upstream fixture mock_path_cs_filtered
    "ci": ((False, False, False), (False, False, False)),
    "pci": ((True, False, False), (False, False, True)),
    "pp": ((True, True, False), (True, True, False)),
    "op": ((False, True, False), (True, True, False)),
    "of": ((False, True, True), (False, True, True)),       # filtering on both sides
    "lci": ((False, False, False), (False, True, False)),   # mixed: local case-insensitive, remote case-sensitive
    "rci": ((False, True, False), (False, False, False)),   # mixed: remote case-insensitive
    "plci": ((True, False, False), (False, True, False)),
    # id-style accounts that report folder deletions WITHOUT an object id (matched by path in the event manager)
    "ot": ((False, True, False, {"oidless_folder_trash_events": True}), (False, True, False, {"oidless_folder_trash_events": True})),
}

BASES = {
    "B0": [],
    "B1": [["create", "a", "1"], ["mkdir", "d"], ["create", "d/b", "2"]],
    "B2": [["create", "a", "1"], ["mkdir", "d"], ["create", "d/b", "2"],
           ["mkdir", "e"], ["mkdir", "e/f"], ["create", "e/f/g", "3"], ["create", "h", "4"]],
    "B3": [["create", "a", "1"], ["create", "b", "2"]],
    "B4": [["create", "a", "1"], ["mkdir", "d"], ["create", "d/b", "2"], ["mkdir", "m"]],
    "B5": [["mkdir", "m"], ["create", "a", "1"], ["mkdir", "d"], ["create", "d/b", "2"]],      # (empty folder walked first)
}

ENGINE = ("IL", "IR", "S")


def _call_site():
    """name of the nearest cloudsync engine function on the stack (call-site label for findings)"""
    import sys
    f = sys._getframe(2)
    while f is not None:
        fn = f.f_code.co_filename.replace("\\", "/")
        if "/cloudsync/" in fn and "/providers/" not in fn and "/tests/" not in fn:
            return "%s.%s" % (fn.rsplit("/", 1)[1][:-3], f.f_code.co_name)
        f = f.f_back
    return "?"


class HarnessError(Exception):
    pass


class BaseSyncFailed(HarnessError):
    """the engine could not even mirror the base tree under the fair schedule: reported as a violation of the
    property being checked (every engine property presupposes it), not as a harness failure"""


class PreFailed(HarnessError):
    """the preparatory phase of a phased job did not end in a converged quiet state: the job is gated out"""


class DictStorage(S.Storage):
    """boring reference storage (dict); snapshot = dict copy"""
    def __init__(self, rows=None, nxt=1):
        self.rows = dict(rows or {})
        self.nxt = nxt
        self.log = None         # optional list collecting ('create'|'update'|'delete', tag, id)
        self.gate = None        # optional callable(kind, tag, eid) raising to simulate a crash

    def _w(self, kind, tag, eid):
        if self.gate:
            self.gate(kind, tag, eid)
        if self.log is not None:
            self.log.append((kind, tag, eid))

    def create(self, tag, serialization):
        self._w("create", tag, None)
        eid = self.nxt
        self.nxt += 1
        self.rows[(tag, eid)] = serialization
        return eid

    def update(self, tag, serialization, eid):
        self._w("update", tag, eid)
        if (tag, eid) not in self.rows:
            return 0
        self.rows[(tag, eid)] = serialization
        return 1

    def delete(self, tag, eid):
        self._w("delete", tag, eid)
        self.rows.pop((tag, eid), None)

    def read_all(self, tag=None):
        if tag is not None:
            return {eid: v for (t, eid), v in self.rows.items() if t == tag}
        out = {}
        for (t, eid), v in self.rows.items():
            out.setdefault(t, {})[eid] = v
        return out

    def read(self, tag, eid):
        return self.rows.get((tag, eid))

    def snapshot(self):
        return (dict(self.rows), self.nxt)


def _is_conflicted(path):
    return ".conflicted" in path


class World:
    MUTATORS = ("create", "upload", "rename", "delete", "mkdir")

    def __init__(self, job, storage=None, provs=None, skip_base=False):
        self.job = job
        self.opts = dict(job.get("opts") or {})
        self.clock = env.Clock()
        self.ctr = env.Counters(job.get("order", "asc"))
        env.install(self.clock, self.ctr)
        self.cfg = CFGS[job["cfg"]]
        self.scripts = job.get("scripts") or [[], []]
        self.pos = [0, 0]
        self.in_engine = None           # name of the engine action being executed
        self.calls = []                 # (actor, side, method, args-summary, outcome)
        self.engine_writes = []         # effective engine mutations
        self.write_sites = []           # parallel to engine_writes: engine function that issued the provider call
        self.notes = []                 # notifications raised
        self.excs = []                  # (service, repr(exc)) swallowed by the service loop
        self.user_log = []              # (side, op, ok)
        self.written = {}               # content -> (side, path) for user create/write
        self.destroyed = set()          # contents destroyed by a user op
        self.extra_state = []           # property specific state folded into the key
        self.hooks = {}                 # name -> callable; property specific wrappers
        self.resolver = None
        self.closed = False
        self.api_count = 0
        self.fault = None               # callable(side, method, phase, args) or None

        if provs is None:
            (lo, lc, lf), (ro, rc, rf) = self.cfg[0][:3], self.cfg[1][:3]
            lkw = dict(self.cfg[0][3]) if len(self.cfg[0]) > 3 else {}
            rkw = dict(self.cfg[1][3]) if len(self.cfg[1]) > 3 else {}
            hf = {}
            if self.opts.get("remote_hash") == "sha256":        # the two accounts hash content differently (any real pair does)
                import hashlib
                hf = {"hash_func": lambda b: hashlib.sha256(b).digest()}
            l = MockProvider(lo, lc, filter_events=lf, **lkw)
            r = MockProvider(ro, rc, filter_events=rf, **dict(rkw, **hf))
            l.connection_id = "L"
            r.connection_id = "R"
            l.connect({"k": "v"})
            r.connect({"k": "v"})
            self.provs = (l, r)
            self._wrap_providers()
            for s, p in enumerate(self.provs):
                for op in self.opts.get("outside", {}).get(str(s), []):
                    self._raw_user(s, op)
        else:
            self.provs = provs
        self.storage = storage
        if storage is None and self.opts.get("storage"):
            self.storage = DictStorage()
        if self.opts.get("unsynced_base") and not skip_base:
            # first-ever start: the content is there BEFORE an engine exists (its event cursor will start at "latest", so
            # only the initial walk can find it)
            base = job.get("base", "B1")
            base = BASES[base] if isinstance(base, str) else base
            for s_, p_ in enumerate(self.provs):
                p_.mkdirs(ROOTS[s_])
            for op in base:
                if not self._raw_user(int(self.opts.get("base_side", 0)), op):
                    raise HarnessError("base op failed %r" % (op,))
            for p_ in self.provs:
                for _ in p_.events():       # a fresh client starts at the latest cursor
                    pass
        self._build_cs()
        if not skip_base:
            base = job.get("base", "B1")
            base = BASES[base] if isinstance(base, str) else base
            for op in ([] if self.opts.get("unsynced_base") else base):
                if not self._raw_user(int(self.opts.get("base_side", 0)), op):
                    raise HarnessError("base op failed %r" % (op,))
            if self.opts.get("unsynced_base"):
                # first-ever start: the content exists on one side before the engine has run at all (found by the walk)
                self.user_log.clear()
                self.written.clear()
                self.destroyed.clear()
                self.unsynced_base_contents = frozenset(v for v in self.tree(int(self.opts.get("base_side", 0))).values()
                                                        if v is not None)
                return
            et = self.opts.pop("explicit_time", None)       # the base tree is synchronised with the whole-epoch clock
            aging = self.cs.aging
            if et is not None:
                self.cs.aging = 0
            try:
                self.settle()
            except NoQuiescence as e:
                raise BaseSyncFailed("base tree: %s" % e)
            self.cs.aging = aging
            if et is not None:
                self.opts["explicit_time"] = et
                self.clock.t = float(math.floor(self.clock.t) + 100)
            if self.opts.get("check_base", True):
                tl, tr = self.tree(0), self.tree(1)
                if tl != tr:
                    raise BaseSyncFailed("base tree not in sync: %r %r" % (tl, tr))
            # phased jobs: a first history (both users act, then the engine runs to quiescence under the fair schedule)
            # whose end state - including whatever bookkeeping it left behind - is the start state of the exploration
            pre = job.get("pre")
            if pre:
                for side in (0, 1):
                    for op in pre[side]:
                        self._raw_user(side, op)
                try:
                    self.settle()
                except NoQuiescence as e:
                    raise PreFailed("pre phase: %s" % e)
                if not trees_equal_mod_conflicted(self.tree(0), self.tree(1)):
                    raise PreFailed("pre phase ends diverged")
            # base is not part of the observed history
            self.calls.clear()
            self.engine_writes.clear()
            self.write_sites.clear()
            self.notes.clear()
            self.excs.clear()
            self.user_log.clear()
            self.written.clear()
            self.destroyed.clear()

    # ------------------------------------------------------------------ construction
    def _build_cs(self):
        env.install(self.clock, self.ctr)
        cls = SM.SmartCloudSync if self.opts.get("smart") else CloudSync
        kw = {}
        roots = ROOTS
        if self.opts.get("roots_by_id"):
            oids = []
            for s, p in enumerate(self.provs):
                oids.append(p.mkdirs(ROOTS[s]))
            kw["root_oids"] = tuple(oids)
        world = self

        translate = self.opts.get("translate")
        if translate == "skip":
            class _CS(cls):
                def translate(self, side, path):
                    if path and "skip" in path.replace("\\", "/").split("/")[-1][:4]:
                        return None
                    return super().translate(side, path)
            cls = _CS
        prio = self.opts.get("prioritize")
        if prio:
            base_cls = cls

            class _CS2(base_cls):
                def prioritize(self, side, path):
                    return world.prioritize(side, path)
            cls = _CS2
        if self.opts.get("default_sleep"):
            for p_, s_ in zip(self.provs, self.opts["default_sleep"]):
                p_.default_sleep = s_
        self.cs = cls(self.provs, roots=roots, storage=self.storage, sleep=None, **kw)
        if "aging" in self.opts:
            self.cs.aging = self.opts["aging"]
        self.cs.nmgr.notify = self._notify
        if self.opts.get("resolver") is not None:
            self.cs.smgr.set_resolver(self._resolve)
        self.mgrs = {"IL": self.cs.emgrs[0], "IR": self.cs.emgrs[1], "S": self.cs.smgr}
        try:
            self.cs.smgr._validate_provider_roots()
        except RN._BackoffError:
            pass

    def prioritize(self, side, path):
        spec = self.opts.get("prioritize") or {}
        leaf = path.replace("\\", "/").split("/")[-1]
        return spec.get(leaf, 0)

    def _notify(self, n):
        self.notes.append((self.in_engine, n.source.name, n.ntype.name, n.path))

    def _resolve(self, f1, f2):
        return self.hooks["resolver"](self, f1, f2)

    # ------------------------------------------------------------------ provider instrumentation
    def _wrap_providers(self):
        for side, p in enumerate(self.provs):
            for name in self.MUTATORS:
                self._wrap_mut(side, p, name)
            for name in ("download", "info_oid", "info_path", "listdir", "events", "exists_oid", "exists_path",
                         "hash_oid"):
                self._wrap_read(side, p, name)

    def _wrap_mut(self, side, p, name):
        orig = getattr(p, name)
        world = self

        def wrapper(*a, **kw):
            if world.dead:
                raise Crash()
            if world.in_engine is None or world._nested:
                return orig(*a, **kw)
            world.api_count += 1
            idx = world.api_count
            if world.fault:
                world.fault(side, name, "before", idx, a)
            world._nested += 1
            before = world._snap(side) if world.track_effects else None
            try:
                ret = orig(*a, **kw)
            except BaseException as e:
                world._nested -= 1
                world.calls.append((world.in_engine, side, name, _summ(a), "!" + type(e).__name__))
                raise
            world._nested -= 1
            after = world._snap(side) if world.track_effects else None
            eff = (before != after) if world.track_effects else True
            world.calls.append((world.in_engine, side, name, _summ(a), "ok"))
            if eff:
                world.engine_writes.append((world.in_engine, side, name, _summ(a), world.clock.t))
                world.write_sites.append(_call_site())
            h = world.hooks.get("after_write")
            if h:
                h(world, side, name, a, ret)
            if world.fault:
                world.fault(side, name, "after", idx, a)
            return ret
        setattr(p, name, wrapper)

    def _wrap_read(self, side, p, name):
        orig = getattr(p, name)
        world = self

        def wrapper(*a, **kw):
            if world.in_engine is None or world._nested:
                return orig(*a, **kw)
            world.api_count += 1
            idx = world.api_count
            if world.fault:
                world.fault(side, name, "before", idx, a)
            world._nested += 1
            try:
                ret = orig(*a, **kw)
            finally:
                world._nested -= 1
            if name == "events" and world.opts.get("event_points"):
                # opt-in: every further event of the batch is a fault point of its own - the provider has consumed the
                # event (its cursor moved) but fails before handing it over (paging request fails)
                def batch(it=ret):
                    first = True
                    for ev in it:
                        if not first and world.in_engine is not None:
                            world.api_count += 1
                            if world.fault:
                                world.fault(side, "events.next", "before", world.api_count, ())
                        first = False
                        yield ev
                return batch()
            return ret
        setattr(p, name, wrapper)

    _nested = 0
    track_effects = True

    def _snap(self, side):
        p = self.provs[side]
        return tuple((o.path, o.oid, o.type, o.contents, o.exists)
                     for k, o in p._mock_fs._objects.items() if k.startswith("/"))

    # ------------------------------------------------------------------ user operations
    def _abs(self, side, rel):
        if rel.startswith("/"):
            return rel
        return ROOTS[side] + "/" + rel

    def _raw_user(self, side, op):
        p = self.provs[side]
        kind = op[0]
        try:
            if kind == "create":
                data = op[2].encode() if isinstance(op[2], str) else op[2]
                p.create(self._abs(side, op[1]), BytesIO(data))
                self.written[data] = (side, op[1])
            elif kind == "write":
                data = op[2].encode() if isinstance(op[2], str) else op[2]
                i = p.info_path(self._abs(side, op[1]))
                if not i or i.otype != FILE:
                    raise ex.CloudFileNotFoundError()
                old = self._content(side, i.oid)
                p.upload(i.oid, BytesIO(data))
                if old is not None and old != data:
                    self.destroyed.add(old)
                self.written[data] = (side, op[1])
            elif kind == "mkdir":
                p.mkdir(self._abs(side, op[1]))
            elif kind == "delete":
                i = p.info_path(self._abs(side, op[1]))
                if not i:
                    raise ex.CloudFileNotFoundError()
                old = self._content(side, i.oid) if i.otype == FILE else None
                p.delete(i.oid)
                if old is not None:
                    self.destroyed.add(old)
            elif kind == "rename":
                i = p.info_path(self._abs(side, op[1]))
                if not i:
                    raise ex.CloudFileNotFoundError()
                p.rename(i.oid, self._abs(side, op[2]))
            else:
                raise ValueError(kind)
            return True
        except ex.CloudException:
            return False

    def _content(self, side, oid):
        o = self.provs[side]._mock_fs.get(oid)
        if o is not None and o.exists and o.type == MK.MockFSObject.FILE:
            return o.contents
        return None

    def user(self, side):
        op = self.scripts[side][self.pos[side]]
        self.pos[side] += 1
        env.install(self.clock, self.ctr)
        self.clock.t = float(math.floor(self.clock.t) + 1)
        ok = self._raw_user(side, op)
        self.user_log.append((side, tuple(op), ok))
        return ok

    # ------------------------------------------------------------------ engine steps
    def step(self, which):
        env.install(self.clock, self.ctr)
        env.CUR.world = self
        if not self.opts.get("explicit_time"):
            self.clock.t = float(math.floor(self.clock.t) + 1)
        m = self.mgrs[which]
        self.in_engine = which
        restore = None
        if self.opts.get("per_event") and which in ("IL", "IR"):
            p = m.provider
            ev = p.events
            p.events = lambda: itertools.islice(ev(), 1)
            restore = (p, ev)
        try:
            if self.opts.get("raw_do"):
                try:
                    m.do()
                except RN._BackoffError:
                    pass
                except Exception:           # the Runnable loop would swallow it the same way (recorded by env)
                    pass
            else:
                m.run(until=_true, sleep=0)
        finally:
            self.in_engine = None
            if restore:
                restore[0].events = restore[1]

    def act(self, a):
        if a == "UL":
            return self.user(0)
        if a == "UR":
            return self.user(1)
        if a in ENGINE:
            return self.step(a)
        h = self.hooks.get("action")
        if h:
            return h(self, a)
        raise HarnessError("unknown action %r" % (a,))

    def actions(self):
        acts = []
        if self.pos[0] < len(self.scripts[0]):
            acts.append("UL")
        if self.pos[1] < len(self.scripts[1]):
            acts.append("UR")
        if acts and self.opts.get("users_first"):
            return acts             # the engine only starts once every user operation has happened
        acts.extend(ENGINE)
        h = self.hooks.get("actions")
        if h:
            acts.extend(h(self))
        return acts

    def users_done(self):
        if self.pos[0] < len(self.scripts[0]) or self.pos[1] < len(self.scripts[1]):
            return False
        h = self.hooks.get("users_done")
        return h(self) if h else True

    def settle(self, limit=200, order=ENGINE):
        """fair round robin until nothing changes; returns number of effective steps"""
        n = 0
        idle = 0
        k = self.key()
        for i in range(limit * len(order)):
            a = order[i % len(order)]
            self.step(a)
            k2 = self.key()
            if k2 == k:
                idle += 1
                if idle >= len(order):
                    return n
            else:
                idle = 0
                n += 1
                k = k2
        raise NoQuiescence("no quiescence within %d rounds" % limit)

    # ------------------------------------------------------------------ observation
    def tree(self, side):
        p = self.provs[side]
        root = ROOTS[side]
        out = {}
        for k, o in p._mock_fs._objects.items():
            if not k.startswith("/") or not o.exists or o.path is None:
                continue
            if o.path == root or not o.path.startswith(root + "/"):
                continue
            rel = o.path[len(root) + 1:]
            out[rel] = None if o.type == MK.MockFSObject.DIR else o.contents
        return out

    def outside(self, side):
        p = self.provs[side]
        root = ROOTS[side]
        out = []
        for k, o in p._mock_fs._objects.items():
            if not k.startswith("/") or o.path is None:
                continue
            if o.path == root or o.path.startswith(root + "/"):
                continue
            out.append((o.path, o.type, o.contents, o.exists, o.oid))
        return tuple(sorted(out, key=repr))

    def all_contents(self):
        res = set()
        for s in (0, 1):
            for k, o in self.provs[s]._mock_fs._objects.items():
                if k.startswith("/") and o.exists and o.type == MK.MockFSObject.FILE and o.path:
                    res.add(o.contents)
        return res

    def entries(self):
        st = self.cs.state
        ents = set(st._oids[0].values()) | set(st._oids[1].values()) | set(st._changeset_storage) | set(st._dirtyset)
        return sorted(ents, key=lambda e: e._vseq)

    def key(self):
        st = self.cs.state
        stamps = set()

        def col(v):
            if v and v >= 100:
                stamps.add(math.floor(v))
        ents_raw = self.entries()
        for e in ents_raw:
            for s in (0, 1):
                col(e[s]._changed)
                col(e[s]._last_gotten)
        col(st._last_changed_time)
        if self.storage is not None and isinstance(self.storage, DictStorage):
            import msgpack
            for v in self.storage.rows.values():      # stamps that only survive in (possibly stale) rows
                if isinstance(v, (bytes, bytearray)):
                    try:
                        d = msgpack.loads(v, use_list=False, raw=False)
                        if isinstance(d, dict) and "side0" in d:
                            col(d["side0"].get("changed"))
                            col(d["side1"].get("changed"))
                    except Exception:
                        pass
        explicit = self.opts.get("explicit_time")
        now = self.clock.t
        if explicit:
            def ts(v):
                if not v:
                    return v
                if v < 100:
                    return ('abs', v)
                return round(v - now, 4)
        else:
            rank = {v: i for i, v in enumerate(sorted(stamps))}

            def ts(v):
                if not v:
                    return v
                if v < 100:
                    return ('abs', v)
                f = math.floor(v)
                return (rank[f], round(v - f, 4))
        ren = {}

        def R(o):
            if isinstance(o, str) and len(o) > 1 and o[0] == "o" and o[1:].isdigit():
                r = ren.get(o)
                if r is None:
                    r = ren[o] = "#%d" % len(ren)
                return r
            return o
        provs = []
        for s in (0, 1):
            p = self.provs[s]
            objs = tuple((R(k), o.path, R(o.oid), o.type, o.contents, o.exists)
                         for k, o in p._mock_fs._objects.items())
            evs = tuple((e._action, R(e._target_object.oid), e._target_object.path, e._target_object.exists,
                         e._target_object.type, R(e._prior_oid)) for e in p._events[p._cursor + 1:])
            em = self.cs.emgrs[s]
            q = tuple((R(ev.oid), ev.path, ev.exists, ev.otype.value, ev.hash, fw) for ev, fw in em._queue)
            provs.append((objs, evs, em.need_walk, em._first_do, q, em.in_backoff, em.need_auth,
                          p.connected, bool(p._locked_for_test), em.cursor is None))
        ents = []
        chg = st._changeset_storage
        for e in ents_raw:
            row = []
            for s in (0, 1):
                ss = e[s]
                row.append((ss._otype.value if ss._otype else None, ss._hash, ts(ss._changed), ts(ss._last_gotten),
                            ss._sync_hash, ss._sync_path, ss._path, R(ss._oid), ss._exists.value, ss._force_sync,
                            bool(ss._temp_file and os.path.exists(ss._temp_file)),
                            ss._saved_exists.value if ss._saved_exists is not None else None))
            ents.append((tuple(row), e._ignored.value, e._priority, e in chg, e._storage_id is not None,
                         e in st._dirtyset))
        extra = ()
        if self.opts.get("smart"):
            extra = (tuple(sorted(e._vseq for e in st.requestset)), tuple(sorted(e._vseq for e in st.excludeset)))
        sto = ()
        if self.storage is not None and isinstance(self.storage, DictStorage):
            sto = tuple(sorted(((t, i, _canon_row(v, R, ts)) for (t, i), v in self.storage.rows.items()), key=repr))
        h = self.hooks.get("key")
        hk = h(self) if h else ()
        return (tuple(ents), tuple(provs), self.cs.smgr.in_backoff, ts(st._last_changed_time), tuple(self.pos),
                extra, sto, hk, tuple(self.extra_state))

    def describe(self):
        """human readable state dump for replay files"""
        out = {"tree_local": _show_tree(self.tree(0)), "tree_remote": _show_tree(self.tree(1)), "entries": []}
        for e in self.entries():
            out["entries"].append(str(e.pretty_tuple(use_sigs=False)))
        return out

    # ------------------------------------------------------------------ restart / crash support
    def stop_engine(self):
        """the process goes away between two steps (or died): drop every engine object, keep storage and providers"""
        try:
            self.cs.smgr.done()         # only removes the temp directory
        except Exception:
            pass
        env.release_guard(self.provs)
        for p in self.provs:
            p._root_path = None
            p._root_oid = None
            p._cursor = p._latest_cursor      # a fresh client starts at "now" unless it restores a stored cursor
            if not p.connected:
                try:
                    p.reconnect()
                except Exception:
                    pass
        self.dead = False
        self.fault = None
        self.in_engine = None

    def restart(self, mode="intact"):
        st = self.storage
        if st is not None and mode != "intact":
            for (tag, eid) in list(st.rows):
                if "_cursor" in tag:
                    if mode == "nocursor":
                        del st.rows[(tag, eid)]
                    elif mode == "badcursor":
                        st.rows[(tag, eid)] = "rejected-by-provider"
        if st is not None:
            st.gate = None
        if mode == "dropconn":
            # the connection drops at the very first provider call of the new engine (restoring the stored cursor goes
            # through the connection for real cloud providers): the cursor restore raises once and the session is gone
            import cloudsync.exceptions as _ex
            for p in self.provs:
                base_cls = type(p)
                if getattr(base_cls, "_vmc_dropconn", False):
                    base_cls = base_cls.__mro__[1]
                state = {"left": 1}
                prop = base_cls.current_cursor

                def getter(self_, _prop=prop):
                    return _prop.fget(self_)

                def setter(self_, val, _prop=prop, _state=state):
                    if _state["left"] > 0 and val is not None:
                        _state["left"] -= 1
                        self_.disconnect()
                    if not self_.connected:         # (stays down until the engine reconnects)
                        raise _ex.CloudDisconnectedError("connection dropped while restoring the cursor")
                    return _prop.fset(self_, val)
                p.__class__ = type(base_cls.__name__ + "DropConn", (base_cls,),
                                   {"current_cursor": property(getter, setter), "_vmc_dropconn": True})
        self._build_cs()

    def prompt_run(self, limit=400):
        """default schedule: first state-changing action in the order IL, IR, S, UL, UR (or opts["prompt_order"]); returns
        the history"""
        hist = []
        k = self.key()
        po = self.opts.get("prompt_order")
        for _ in range(limit):
            progressed = False
            for a in (po or ([x for x in ENGINE] + [x for x in self.actions() if x not in ENGINE])):
                if a not in self.actions():
                    continue
                self.act(a)
                k2 = self.key()
                if k2 != k:
                    hist.append(a)
                    k = k2
                    progressed = True
                    break
            if not progressed:
                return hist
        raise NoQuiescence("prompt schedule did not go quiet within %d steps" % limit)

    dead = False

    def close(self):
        if self.closed:
            return
        self.closed = True
        try:
            self.cs.done()
        except Exception:
            pass
        env.release_guard(self.provs)


class NoQuiescence(Exception):
    pass


class Crash(BaseException):
    """the process dies here (never caught by `except Exception`)"""
    _vmc_crash = True


def _true():
    return True


def _summ(a):
    out = []
    for x in a:
        if isinstance(x, (str, int, float, type(None))):
            out.append(x)
        else:
            out.append(type(x).__name__)
    return tuple(out)


def _show_tree(t):
    return {k: (None if v is None else v.decode("latin1")) for k, v in sorted(t.items())}


def _canon_row(v, R, ts):
    """storage row -> canonical comparable (decode entry rows so ids/stamps are abstracted like live entries)"""
    import msgpack
    if not isinstance(v, (bytes, bytearray)):
        return ("raw", repr(v))
    try:
        d = msgpack.loads(v, use_list=False, raw=False)
    except Exception:
        return ("bytes", bytes(v))
    if not isinstance(d, dict) or "side0" not in d:
        return ("val", repr(d))
    rows = []
    for s in ("side0", "side1"):
        x = d[s]
        rows.append((x.get("otype"), x.get("hash"), ts(x.get("changed")), x.get("sync_hash"), x.get("path"),
                     x.get("sync_path"), R(x.get("oid")), x.get("exists"), bool(x.get("temp_file")),
                     x.get("_saved_exists")))
    return ("ent", tuple(rows), d.get("ignored"), d.get("priority"))


def trees_equal_mod_conflicted(tl, tr, fold=False):
    def norm(t):
        out = {}
        for p, v in t.items():
            if _is_conflicted(p):
                continue
            out[p.lower() if fold else p] = v
        return out
    return norm(tl) == norm(tr)


def artefacts(t):
    return sorted(p for p in t if _is_conflicted(p))
